"""Fault seams.  MatID reaches every dependency through a module attribute, so
shims are installed with setattr for the duration of one operation and removed
in a finally block.  No hook in /repo is needed.

Two fault kinds are injected:
  dep-raise    the nth call of a shimmed site raises an exception that this
               boundary can really produce (MemoryError, RuntimeError,
               ImportError, LinAlgError, ValueError)
  async-crash  SimCrash(BaseException) is raised at the k-th 'line' event that
               executes inside /repo/matid/*.py (sys.settrace) -- the analogue of
               KeyboardInterrupt / cancellation at an arbitrary instant

The same shims *count* calls when nothing is armed.  The number of seam
crossings is the simulator's always-on logical clock; the number of matid line
events is the fine-grained clock used to place crashes.
"""

import os
import sys

import numpy as np

from matsim.sched import SimHang


class SimCrash(BaseException):
    """Injected asynchronous crash."""


class InjectedFault:
    """Mixin marker so that the harness can recognise its own exceptions."""


def _mk(exc_type):
    return type("Injected" + exc_type.__name__, (exc_type, InjectedFault), {})


EXC = {
    "MemoryError": _mk(MemoryError),
    "RuntimeError": _mk(RuntimeError),
    "ImportError": _mk(ImportError),
    "ValueError": _mk(ValueError),
    "LinAlgError": _mk(np.linalg.LinAlgError),
}


def _sites():
    import ase
    import matid.ext
    import matid.geometry
    import matid.geometry.geometry as gg
    import spglib

    geom = [matid.geometry, gg]
    s = {
        # boundary F1: the C++ extension
        "ext.get_displacement_tensor": ([matid.ext], "get_displacement_tensor", ["MemoryError", "RuntimeError"]),
        "ext.get_cell_list": ([matid.ext], "get_cell_list", ["MemoryError", "RuntimeError"]),
        "ext.extend_system": ([matid.ext], "extend_system", ["MemoryError", "RuntimeError"]),
        # python wrappers that sit directly on the extension
        "geom.get_matches": (geom, "get_matches", ["MemoryError", "RuntimeError"]),
        "geom.get_matches_simple": (geom, "get_matches_simple", ["MemoryError", "RuntimeError"]),
        "geom.get_positions_within_basis": (geom, "get_positions_within_basis", ["LinAlgError", "MemoryError"]),
        # boundary F2: sklearn DBSCAN (lazy import + fit)
        "geom.get_clusters": (geom, "get_clusters", ["ImportError", "MemoryError", "ValueError"]),
        "geom.get_dimensionality": (geom, "get_dimensionality", ["MemoryError"]),
        "geom.get_distances": (geom, "get_distances", ["MemoryError"]),
        # boundary F3: ase
        "ase.wrap": ([ase.Atoms], "wrap", ["MemoryError", "LinAlgError"]),
        "ase.get_scaled_positions": ([ase.Atoms], "get_scaled_positions", ["LinAlgError", "MemoryError"]),
        # boundary F5: spglib
        "spglib.get_symmetry_dataset": ([spglib], "get_symmetry_dataset", ["RuntimeError"]),
    }
    return s


_SITES = None


def sites():
    global _SITES
    if _SITES is None:
        _SITES = _sites()
    return _SITES


MATID_DIR = None


def matid_dir():
    global MATID_DIR
    if MATID_DIR is None:
        import matid

        MATID_DIR = os.path.dirname(os.path.abspath(matid.__file__)) + os.sep
    return MATID_DIR


class Seams:
    """Context manager: install counting / faulting shims for one operation.

    arm: None or {"kind": "dep-raise", "site": s, "nth": n, "exc": name}
              or {"kind": "async-crash", "k": k}            (k-th matid line event)
              or {"kind": "async-crash", "file": rel, "kf": n}  (n-th line event inside matid/<rel>:
                 file-stratified placement, so that the short orchestration code of sbc.py /
                 cluster.py / classifier.py is hit as often as the hot loops of periodicfinder.py)
    budget: max number of seam crossings before SimHang is raised
    count_lines: run the matid line counter even when no crash is armed
    """

    def __init__(self, arm=None, budget=None, count_lines=False):
        self.arm = arm
        self.budget = budget
        self.counts = {}
        self.total = 0
        self.lines = 0
        self.file_lines = {}  # matid-relative file name -> [line events]
        self.fired = None  # descriptor of the fault that actually fired
        self.observed = {}
        self.count_lines = count_lines or (arm is not None and arm.get("kind") == "async-crash")
        self._saved = []
        self._old_trace = None

    # -- shims ------------------------------------------------------------
    def _make_shim(self, site, orig):
        seams = self

        def shim(*a, **k):
            seams.total += 1
            if site == "geom.get_clusters" and a and getattr(a[0], "shape", (1,))[0] == 0:
                # rare state: a cluster was emptied before cleaning (all of its atoms
                # were awarded to other clusters by overlap resolution)
                seams.observed["empty_matrix_to_dbscan"] = seams.observed.get("empty_matrix_to_dbscan", 0) + 1
            c = seams.counts.get(site, 0) + 1
            seams.counts[site] = c
            if seams.budget is not None and seams.total > seams.budget:
                raise SimHang("seam crossings %d exceed budget %d" % (seams.total, seams.budget))
            arm = seams.arm
            if (
                arm is not None
                and seams.fired is None
                and arm.get("kind") == "dep-raise"
                and arm["site"] == site
                and arm["nth"] == c
            ):
                seams.fired = dict(arm)
                raise EXC[arm["exc"]]("injected fault at %s call #%d" % (site, c))
            return orig(*a, **k)

        shim.__wrapped__ = orig
        shim.__name__ = getattr(orig, "__name__", site)
        shim.__doc__ = getattr(orig, "__doc__", None)
        return shim

    def __enter__(self):
        for site, (holders, name, _excs) in sites().items():
            orig = getattr(holders[0], name)
            shim = self._make_shim(site, orig)
            for h in holders:
                self._saved.append((h, name, h.__dict__[name] if name in h.__dict__ else getattr(h, name)))
                setattr(h, name, shim)
        if self.count_lines:
            self._install_tracer()
        return self

    def __exit__(self, et, ev, tb):
        if self.count_lines:
            sys.settrace(self._old_trace)
        for h, name, orig in reversed(self._saved):
            setattr(h, name, orig)
        self._saved = []
        return False

    # -- tracer -----------------------------------------------------------
    def _install_tracer(self):
        prefix = matid_dir()
        seams = self
        crash = self.arm if (self.arm and self.arm.get("kind") == "async-crash") else None
        k = crash.get("k") if crash else None
        kfile = crash.get("file") if crash else None
        kf = crash.get("kf") if crash else None
        cells = self.file_lines
        locals_ = {}

        def fire(frame, what):
            seams.fired = dict(seams.arm)
            seams.fired["at"] = "%s:%d" % (frame.f_code.co_filename[len(prefix):], frame.f_lineno)
            raise SimCrash("injected crash at %s (%s)" % (what, seams.fired["at"]))

        def make_local(rel):
            cell = cells.setdefault(rel, [0])
            watch = kfile is not None and rel == kfile

            def local(frame, event, arg):
                if event == "line":
                    seams.lines += 1
                    cell[0] += 1
                    if k is not None and seams.lines == k and seams.fired is None:
                        fire(frame, "line event %d" % k)
                    if watch and cell[0] == kf and seams.fired is None:
                        fire(frame, "line event %d of %s" % (kf, rel))
                return local

            return local

        def glob(frame, event, arg):
            fn = frame.f_code.co_filename
            if fn.startswith(prefix):
                loc = locals_.get(fn)
                if loc is None:
                    loc = locals_[fn] = make_local(fn[len(prefix):])
                return loc
            return None

        self._old_trace = sys.gettrace()
        sys.settrace(glob)

    def file_counts(self):
        return {rel: c[0] for rel, c in sorted(self.file_lines.items()) if c[0] > 0}


def legal_faults(counts, allowed_sites=None):
    """Sites that were actually crossed in a dry run, with their call counts and
    the exception types that boundary can produce."""
    out = []
    for site, c in sorted(counts.items()):
        if c <= 0:
            continue
        if allowed_sites is not None and site not in allowed_sites:
            continue
        out.append((site, c, sites()[site][2]))
    return out
