"""Exact minimum-image distances for any subset of periodic directions.

ase.geometry.get_distances is not exact for partly periodic *skewed* cells (it
wraps with the fractional coordinates of the full cell and then looks at the
+-1 neighbours only; with a non-periodic cell vector that is not orthogonal to
the periodic ones the minimum image can be missed).  The connectivity oracle of
C01 must never over-estimate a distance, so it uses this brute-force version:
Minkowski-reduce the periodic vectors, round the least-squares coefficients of
each displacement in the periodic subspace, and search +-2 around them.
"""

import itertools

import numpy as np
from ase.geometry import complete_cell
from ase.geometry.minkowski_reduction import minkowski_reduce


def exact_mic_distances(positions, cell, pbc):
    pos = np.asarray(positions, dtype=float)
    n = len(pos)
    d = pos[None, :, :] - pos[:, None, :]
    if cell is None or pbc is None or not np.any(pbc):
        return np.linalg.norm(d, axis=2)
    cell = np.array(cell, dtype=float)
    pbc = np.asarray(pbc, dtype=bool) & cell.any(axis=1)
    if not pbc.any():
        return np.linalg.norm(d, axis=2)
    full = complete_cell(cell) if not cell.any(axis=1).all() else cell
    rcell, _ = minkowski_reduce(full, pbc)
    P = np.asarray(rcell)[pbc]  # (k, 3) periodic vectors, reduced among themselves
    k = len(P)
    # least-squares coefficients of every displacement in the periodic subspace
    coef = d.reshape(-1, 3) @ np.linalg.pinv(P)  # (n*n, k)
    base = np.rint(coef)
    flat = d.reshape(-1, 3) - base @ P
    best = np.full(len(flat), np.inf)
    for shift in itertools.product(range(-2, 3), repeat=k):
        cand = flat + np.asarray(shift, dtype=float) @ P
        best = np.minimum(best, np.einsum("ij,ij->i", cand, cand))
    return np.sqrt(best).reshape(n, n)
