"""The seed-atom scheduler (seam for SBC's internal PRNG).

``np.random.default_rng(g)`` returns ``g`` unchanged when ``g`` is a
``Generator``; SBC draws its next seed atom with
``self.rng.choice(list(indices), 1)[0]``.  Passing a ``Generator`` subclass with
an overridden ``choice`` as the *public* ``seed=`` argument therefore puts every
draw under the simulator's control without any hook in /repo.

seedspec (JSON):
  {"kind": "int", "n": k}        MatID's own PCG64 stream -- the documented usage
  {"kind": "gen", "n": k}        SchedGen delegating to PCG64(k): must be
                                 indistinguishable from {"kind": "int", "n": k}
  {"kind": "script", "prio": [atom ids...], "then": "low"|"high"|"rand", "r": k}
                                 next seed = first atom of the priority list that
                                 is still a candidate; when the list is used up
                                 fall back to the policy
"""

import random

import numpy as np


class SimHang(BaseException):
    """Logical-time budget exceeded (deterministic verdict, not a wall clock)."""


class SchedGen(np.random.Generator):
    def __new__(cls, spec, max_draws=None):
        if spec["kind"] == "gen":
            bitgen = np.random.PCG64(spec["n"])
        else:
            bitgen = np.random.PCG64(0)
        obj = super().__new__(cls, bitgen)
        return obj

    def __init__(self, spec, max_draws=None):
        if spec["kind"] == "gen":
            bitgen = np.random.PCG64(spec["n"])
        else:
            bitgen = np.random.PCG64(0)
        super().__init__(bitgen)
        self._spec = spec
        self._prio = list(spec.get("prio", []))
        self._fallback = random.Random(spec.get("r", 0))
        self.trace = []  # (n_candidates, pick)
        self.other_calls = 0
        self._max_draws = max_draws

    def choice(self, a, size=None, replace=True, p=None, axis=0, shuffle=True):
        if self._max_draws is not None and len(self.trace) >= self._max_draws:
            raise SimHang(
                "seed-atom loop drew %d times (budget %d)" % (len(self.trace) + 1, self._max_draws)
            )
        if self._spec["kind"] == "gen":
            out = super().choice(a, size, replace, p, axis, shuffle)
            try:
                self.trace.append((len(a), int(np.asarray(out).ravel()[0])))
            except Exception:
                self.trace.append((-1, -1))
            return out
        cand = [int(x) for x in a]
        cset = set(cand)
        pick = None
        while self._prio:
            x = self._prio.pop(0)
            if x in cset:
                pick = x
                break
        if pick is None:
            then = self._spec.get("then", "low")
            if then == "low":
                pick = min(cand)
            elif then == "high":
                pick = max(cand)
            else:
                pick = sorted(cand)[self._fallback.randrange(len(cand))]
        self.trace.append((len(cand), pick))
        if size is None:
            return np.int64(pick)
        n = int(np.prod(size))
        return np.array([pick] * n, dtype=np.int64).reshape(size)


def make_seed(spec, max_draws=None):
    """Returns (value for the seed= argument, SchedGen or None)."""
    if spec["kind"] == "int":
        return int(spec["n"]), None
    g = SchedGen(spec, max_draws=max_draws)
    return g, g
