"""matsim -- deterministic simulation with fault injection for MatID.

One process = one simulated host process that imported MatID once.  A *world*
is a short history of public-API operations issued by 1-3 logical clients on
long-lived service objects, with a scripted seed-atom scheduler, injected
dependency faults / asynchronous crashes and environment perturbations, all
derived from one integer (VERIF_SEED) through named PRNG streams.
See /verif/DESIGN.md.
"""

import os as _os

# BLAS / OpenMP threads are pinned before numpy is imported anywhere.
for _v in ("OMP_NUM_THREADS", "OPENBLAS_NUM_THREADS", "MKL_NUM_THREADS", "NUMEXPR_NUM_THREADS"):
    _os.environ.setdefault(_v, "1")

VERSION = 1
