"""Long-lived helper interpreter started with a *different* PYTHONHASHSEED.

It evaluates the reference model (fresh service object, pristine input, pinned
global RNGs, no faults) for requests read as JSON lines on stdin and answers
with the result digest.  Used for the NONDET_HASHSEED clause of determinism.
"""

import json
import os
import subprocess
import sys


def _serve():
    import random
    import warnings

    warnings.simplefilter("ignore")
    import numpy as np

    from matsim import oracles
    from matsim.ops import _kw
    from matsim.sched import make_seed
    from matsim.sio import spec_to_atoms

    from matid.classification.classifier import Classifier
    from matid.clustering.sbc import SBC

    out = sys.stdout
    out.write(json.dumps({"ready": True, "hashseed": os.environ.get("PYTHONHASHSEED")}) + "\n")
    out.flush()
    for line in sys.stdin:
        line = line.strip()
        if not line:
            continue
        req = json.loads(line)
        np.random.seed(12345)
        random.seed(12345)
        try:
            atoms = spec_to_atoms(req["struct"])
            if req["kind"] == "cluster":
                seedval, g = make_seed(req["seedspec"], max_draws=len(atoms) + 2)
                res = SBC().get_clusters(atoms, seed=seedval, **_kw(req.get("params", {})))
                ans = {"out": "ok", "digest": oracles.clusters_digest(res)}
            else:
                res = Classifier(**req.get("kwargs", {})).classify(atoms)
                ans = {"out": "ok", "digest": oracles.classification_digest(res)}
        except BaseException as e:  # noqa
            ans = {"out": "exc", "exc": "%s: %s" % (type(e).__name__, str(e)[:200])}
        out.write(json.dumps(ans) + "\n")
        out.flush()


class Helper:
    def __init__(self, repo=None, hashseed="4242"):
        env = dict(os.environ)
        env["PYTHONHASHSEED"] = hashseed
        here = os.path.dirname(os.path.dirname(os.path.abspath(__file__)))
        env["PYTHONPATH"] = here + (os.pathsep + env["PYTHONPATH"] if env.get("PYTHONPATH") else "")
        if repo:
            env["MATSIM_REPO"] = repo
        self.p = subprocess.Popen(
            [sys.executable, os.path.join(here, "matsim_main.py"), "--helper"],
            stdin=subprocess.PIPE,
            stdout=subprocess.PIPE,
            stderr=subprocess.DEVNULL,
            env=env,
            text=True,
            bufsize=1,
        )
        hello = json.loads(self.p.stdout.readline())
        assert hello.get("ready")
        self.hashseed = hello.get("hashseed")

    def ask(self, req):
        self.p.stdin.write(json.dumps(req) + "\n")
        self.p.stdin.flush()
        line = self.p.stdout.readline()
        if not line:
            raise RuntimeError("helper interpreter died")
        return json.loads(line)

    def close(self):
        try:
            self.p.stdin.close()
            self.p.wait(timeout=5)
        except Exception:
            self.p.kill()
