"""Oracles that evaluate a property's own statement about a returned value.

Wherever the statement does not itself name MatID code, the oracle does not
call MatID: minimum-image distances come from ase.geometry.get_distances on the
completed cell, radii from ase.data, connected components from scipy; bonded
pairs are decided with a 1e-6 slack in MatID's favour.
"""

import numpy as np
import scipy.sparse.csgraph as cg
from ase.geometry import complete_cell, get_distances

from matsim import gens
from matsim.mic import exact_mic_distances

SLACK = 1e-6


def _mic_cell(atoms):
    c = atoms.cell.array.copy()
    zero = ~c.any(axis=1)
    if zero.all():
        return None, None
    if zero.any():
        c = complete_cell(c)
    return c, atoms.pbc.copy()


def wellformed_clusters(atoms, params, clusters):
    """C01: non-empty, duplicate-free, in range, pairwise disjoint, species
    consistent, one bonded component, prototype cell periodic in 2 or 3
    directions.  Returns a list of (class, detail)."""
    errs = []
    n = len(atoms)
    num = atoms.numbers
    R = gens.harness_radii(params, num)
    bt = params.get("bond_threshold", 0.65)
    seen = set()
    cell, pbc = _mic_cell(atoms)
    for ic, c in enumerate(clusters):
        try:
            idx = [int(i) for i in c.indices]
        except Exception as e:
            errs.append(("RANGE", "cluster %d: indices not integers (%s)" % (ic, e)))
            continue
        if len(idx) == 0:
            errs.append(("EMPTY", "cluster %d has no atoms" % ic))
            continue
        if len(set(idx)) != len(idx):
            errs.append(("DUP", "cluster %d repeats an index" % ic))
        if any((i < 0 or i >= n) for i in idx):
            errs.append(("RANGE", "cluster %d has an index outside 0..%d" % (ic, n - 1)))
            continue
        if seen & set(idx):
            errs.append(("OVERLAP", "cluster %d shares %d atoms with an earlier cluster" % (ic, len(seen & set(idx)))))
        seen |= set(idx)
        try:
            species = set(int(z) for z in c.species)
        except Exception:
            species = set()
        if not set(int(z) for z in num[idx]) <= species:
            errs.append(
                ("SPECIES", "cluster %d holds Z=%s, species=%s" % (ic, sorted(set(int(z) for z in num[idx])), sorted(species)))
            )
        pc = c.get_cell()
        if pc is None:
            errs.append(("CELL_PBC", "cluster %d has no prototype cell" % ic))
        else:
            npbc = int(np.sum(pc.get_pbc()))
            if npbc not in (2, 3) or len(pc) == 0:
                errs.append(("CELL_PBC", "cluster %d prototype cell pbc=%s natoms=%d" % (ic, list(pc.get_pbc()), len(pc))))
        if len(idx) > 1 and not np.isnan(R[idx]).any():
            uidx = sorted(set(idx))
            D = exact_mic_distances(atoms.positions[uidx], cell, pbc)
            M = D - R[uidx][:, None] - R[uidx][None, :]
            nc, _ = cg.connected_components(M <= bt + SLACK)
            if nc != 1:
                errs.append(("DISCONNECTED", "cluster %d (%d atoms) splits into %d bonded components" % (ic, len(uidx), nc)))
    return errs


def cluster_digest(c):
    from matsim.sio import atoms_digest

    cell = c.get_cell()
    return {
        "indices": [int(i) for i in c.indices],
        "species": sorted(int(z) for z in c.species) if c.species is not None else None,
        "cell": atoms_digest(cell) if cell is not None else None,
    }


def clusters_digest(clusters):
    return [cluster_digest(c) for c in clusters]


# ---------------------------------------------------------------------------
# C17


def classification_digest(cl):
    from matsim.sio import atoms_digest

    d = {"type": type(cl).__name__}
    if hasattr(cl, "region") and cl.region is not None:
        d["basis"] = sorted(int(i) for i in cl.basis_indices)
        d["outliers"] = sorted(int(i) for i in cl.outliers)
        d["cell"] = atoms_digest(cl.prototype_cell) if cl.prototype_cell is not None else None
    return d


def classification_consistent(atoms, clf_kwargs, cl, ref_dim):
    """C17 statement: class vs. dimensionality of the wrapped structure
    (*ref_dim*, evaluated by the caller with matid.geometry.get_dimensionality
    because the statement names it), partition and coverage clauses."""
    errs = []
    name = type(cl).__name__
    n = len(atoms)
    if ref_dim is None:
        ok = name == "Unknown"
    elif ref_dim == 0:
        ok = name == ("Atom" if n == 1 else "Class0D")
    elif ref_dim == 1:
        ok = name == "Class1D"
    elif ref_dim == 2:
        ok = name in ("Class2D", "Surface", "Material2D")
    elif ref_dim == 3:
        ok = name == "Class3D"
    else:
        ok = False
    if not ok:
        errs.append(("CLASS_MISMATCH", "dimensionality %r but class %s (n=%d)" % (ref_dim, name, n)))
    if name in ("Surface", "Material2D"):
        try:
            pc = cl.prototype_cell
            basis = [int(i) for i in cl.basis_indices]
            out = [int(i) for i in cl.outliers]
        except Exception as e:
            errs.append(("REGION", "region accessors raise %s: %s" % (type(e).__name__, e)))
            return errs
        if pc is None or len(pc) == 0:
            errs.append(("REGION", "%s without a prototype cell" % name))
        if set(basis) & set(out):
            errs.append(("REGION", "basis and outliers overlap"))
        if set(basis) | set(out) != set(range(n)):
            errs.append(("REGION", "basis U outliers != all atoms"))
        if len(set(basis)) != len(basis) or len(set(out)) != len(out):
            errs.append(("REGION", "duplicate indices in basis/outliers"))
        mc = clf_kwargs.get("min_coverage", 0.5)
        if len(set(basis)) / n < mc - 1e-12:
            errs.append(("REGION", "coverage %.3f < min_coverage %.3f" % (len(set(basis)) / n, mc)))
    return errs
