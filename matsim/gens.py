"""Workload generators.

messy family (C01 / C13 / C17): random gases, rattled / vacancy / substituted
crystals, two crystals in one cell, crystallites in vacuum, molecules in a box,
2D sheets; every pbc combination; orthogonal / skewed cells; zero cell vectors
along non-periodic axes; wrapped / unwrapped positions.

crystal family (C02 / C04), stacks (C03), monolayers (C04) with an
*independent* precondition (ASE distances + ase.data radii, never MatID).

Every generator takes a numpy Generator that comes from a named stream.
"""

import warnings

import numpy as np
import scipy.sparse.csgraph as cg
from ase import Atoms
from ase.build import bulk, molecule, surface
from ase.build import fcc100, fcc111, bcc100, bcc110
import ase.build
from ase.constraints import FixAtoms
from ase.data import atomic_numbers, chemical_symbols, covalent_radii, reference_states
from ase.data.vdw_alvarez import vdw_radii
from ase.geometry import complete_cell, get_distances
from ase.spacegroup import crystal

warnings.filterwarnings("ignore", category=UserWarning, module="ase")

# ---------------------------------------------------------------------------
# messy family

METALS = ["Cu", "Al", "Fe", "Ni", "Au", "Ag", "W", "Mo", "Ti", "Mg", "Si", "C", "Ge", "Na", "Pt"]
BINARIES = [
    ("NaCl", "rocksalt", 5.64),
    ("MgO", "rocksalt", 4.21),
    ("ZnS", "zincblende", 5.41),
    ("CsCl", "cesiumchloride", 4.12),
]
GAS_Z = [1, 6, 8, 14, 29, 79]
SUBST_Z = [6, 8, 29, 47, 79]
MOLECULES = ["H2O", "CH4", "C6H6", "CO2", "NH3", "C2H6"]


def _unit(rng):
    if rng.random() < 0.3:
        f, st, a = BINARIES[int(rng.integers(len(BINARIES)))]
        return bulk(f, crystalstructure=st, a=a, cubic=bool(rng.integers(2))), f
    el = METALS[int(rng.integers(len(METALS)))]
    try:
        return bulk(el, cubic=bool(rng.integers(2))), el
    except Exception:
        return bulk(el), el


def _cell_ok(cell, pbc):
    """Full-rank, not ill-conditioned after completing zero rows."""
    c = np.array(cell, dtype=float)
    zero = ~c.any(axis=1)
    if (zero & np.asarray(pbc)).any():
        return False
    if zero.any():
        if zero.all():
            return True
        try:
            c = complete_cell(c)
        except Exception:
            return False
    norms = np.linalg.norm(c, axis=1)
    if (norms < 1e-3).any():
        return False
    return abs(np.linalg.det(c)) / np.prod(norms) >= 0.05


def _min_pair_ok(a, dmin=0.05):
    if len(a) < 2:
        return True
    c = a.cell.array.copy()
    zero = ~c.any(axis=1)
    if zero.all():
        c, pbc = None, None
    else:
        if zero.any():
            c = complete_cell(c)
        pbc = a.pbc
    from matsim.mic import exact_mic_distances

    D = exact_mic_distances(a.positions, c, pbc)
    np.fill_diagonal(D, np.inf)
    return D.min() >= dmin


def gen_messy(rng, maxn=80, want_kind=None, coincident=False):
    """Returns (Atoms, meta).  Retries internally until the structure is inside
    the family (valid cell, no pair closer than 0.05 A)."""
    for _attempt in range(50):
        a, meta = _gen_messy_once(rng, maxn, want_kind)
        if len(a) < 1 or len(a) > maxn:
            continue
        if not _cell_ok(a.cell.array, a.pbc):
            continue
        if not _min_pair_ok(a):
            continue
        if coincident and len(a) >= 2:
            # deliberate share: two same-species atoms that coincide up to a
            # lattice vector (still a valid cell)
            num = a.numbers
            pairs = [(i, j) for i in range(len(a)) for j in range(len(a)) if i != j and num[i] == num[j]]
            if pairs:
                i, j = pairs[int(rng.integers(len(pairs)))]
                shift = (rng.integers(-1, 2, 3) * a.pbc) @ a.cell.array
                eps = float(rng.choice([0.0, 1e-15, 1e-9, 1e-6]))
                a.positions[j] = a.positions[i] + shift + [eps, 0, 0]
                meta = dict(meta, coincident=[int(i), int(j)], eps=eps)
        return a, meta
    # fall back to something trivially valid
    a = bulk("Cu", cubic=True) * (2, 2, 2)
    return a, {"family": "messy", "kind": "fallback"}


def _gen_messy_once(rng, maxn, want_kind):
    kinds = ["gas", "defect", "defect", "crystallite", "stack2", "sidebyside", "molecules", "sheet2d"]
    kind = want_kind or kinds[int(rng.integers(len(kinds)))]
    meta = {"family": "messy", "kind": kind}
    if kind == "gas":
        n = int(rng.integers(1, min(40, maxn) + 1))
        L = rng.uniform(2.5, 14, 3)
        cell = np.diag(L)
        if rng.random() < 0.5:
            cell = cell + rng.uniform(-0.3, 0.3, (3, 3)) * L[:, None]
        pos = rng.random((n, 3)) @ cell
        a = Atoms(numbers=rng.choice(GAS_Z, n), positions=pos, cell=cell)
    elif kind == "defect":
        u, name = _unit(rng)
        meta["material"] = name
        reps = [int(rng.integers(1, 5)) for _ in range(3)]
        a = u * tuple(reps)
        while len(a) > maxn and max(reps) > 1:
            reps[int(np.argmax(reps))] -= 1
            a = u * tuple(reps)
        amp = float(rng.choice([0, 0.02, 0.1, 0.3]))
        if amp:
            a.positions += rng.normal(scale=amp, size=(len(a), 3))
        k = int(rng.integers(0, max(1, len(a) // 4)))
        if k and len(a) > k + 1:
            del a[[int(i) for i in rng.choice(len(a), k, replace=False)]]
        if rng.random() < 0.4:
            m = int(rng.integers(1, max(2, len(a) // 5)))
            idx = rng.choice(len(a), min(m, len(a)), replace=False)
            a.numbers[idx] = int(rng.choice(SUBST_Z))
    elif kind == "crystallite":
        u, name = _unit(rng)
        meta["material"] = name
        a = u * (int(rng.integers(2, 5)), int(rng.integers(2, 5)), int(rng.integers(1, 4)))
        if len(a) > maxn:
            a = a[:maxn]
        if rng.random() < 0.5:
            k = int(rng.integers(1, max(2, len(a) // 4)))
            del a[[int(i) for i in rng.choice(len(a), k, replace=False)]]
        ax = [i for i in range(3) if rng.random() < 0.6]
        for i in ax:
            a.center(vacuum=float(rng.uniform(1.5, 8)), axis=i)
        if rng.random() < 0.3:
            a.positions += rng.normal(scale=0.05, size=(len(a), 3))
    elif kind in ("stack2", "sidebyside"):
        axis = 2 if kind == "stack2" else 0
        (u1, n1), (u2, n2) = _unit(rng), _unit(rng)
        meta["material"] = n1 + "|" + n2
        A = _ortho_block(u1, rng)
        B = _ortho_block(u2, rng)
        gap = float(rng.uniform(1.5, 3.0))
        B.positions[:, axis] += A.positions[:, axis].max() - B.positions[:, axis].min() + gap
        a = A + B
        ext = a.positions.max(axis=0) - a.positions.min(axis=0)
        L = np.maximum(np.linalg.norm(A.cell.array, axis=1), ext + 1.0)
        L[axis] = ext[axis] + float(rng.uniform(2, 8))
        a.set_cell(np.diag(L), scale_atoms=False)
        if len(a) > maxn:
            a = a[np.sort(rng.permutation(len(a))[:maxn])]
    elif kind == "molecules":
        m = molecule(str(rng.choice(MOLECULES)))
        m.center(vacuum=float(rng.uniform(1, 4)))
        a = m * (int(rng.integers(1, 3)), int(rng.integers(1, 3)), int(rng.integers(1, 3)))
    elif kind == "surface_ads":
        # a slab (or a 2D sheet) with adsorbates / a disordered overlayer: partial coverage
        r = rng.random()
        size = (int(rng.integers(2, 5)), int(rng.integers(2, 5)), int(rng.integers(2, 5)))
        vac = float(rng.uniform(4, 8))
        if r < 0.3:
            a = fcc100(str(rng.choice(["Cu", "Al", "Ni", "Pt"])), size=size, vacuum=vac)
        elif r < 0.55:
            a = fcc111(str(rng.choice(["Cu", "Au", "Ag"])), size=size, vacuum=vac, orthogonal=False)
        elif r < 0.75:
            a = bcc100(str(rng.choice(["Fe", "W", "Mo"])), size=size, vacuum=vac)
        else:
            a = ase.build.graphene(vacuum=vac) * (int(rng.integers(2, 6)), int(rng.integers(2, 6)), 1)
        meta["material"] = str(a.get_chemical_formula())
        while len(a) > max(4, maxn - 6):
            del a[-1]
        ztop = a.positions[:, 2].max()
        n_ads = int(rng.integers(0, max(2, min(len(a), maxn - len(a)) + 1)))
        c = a.cell.array
        for _ in range(n_ads):
            f = rng.random(2)
            xy = f[0] * c[0] + f[1] * c[1]
            h = float(rng.uniform(1.0, 2.2)) + (float(rng.uniform(0, 2.0)) if rng.random() < 0.3 else 0.0)
            a += Atoms(numbers=[int(rng.choice([1, 6, 8]))], positions=[[xy[0], xy[1], ztop + h]])
        meta["adsorbates"] = n_ads
    elif kind == "single":
        L = rng.uniform(3, 12, 3)
        a = Atoms(numbers=[int(rng.choice(GAS_Z))], positions=[rng.random(3) * L], cell=np.diag(L))
    else:  # sheet2d
        if rng.random() < 0.5:
            a = ase.build.mx2(vacuum=float(rng.uniform(3, 8)))
        else:
            a = ase.build.graphene(vacuum=float(rng.uniform(3, 8)))
        a = a * (int(rng.integers(1, 6)), int(rng.integers(1, 6)), 1)
        if len(a) > maxn:
            a = a[:maxn]
        if rng.random() < 0.3 and len(a) > 4:
            del a[[int(i) for i in rng.choice(len(a), int(rng.integers(1, 3)), replace=False)]]
    # periodicity: every combination
    pbc = rng.random(3) < 0.6
    a.pbc = pbc
    cell = a.cell.array.copy()
    for i in range(3):
        if not pbc[i] and rng.random() < 0.25:
            cell[i] = 0
    a.set_cell(cell, scale_atoms=False)
    # wrapped / unwrapped / outside the cell
    r = rng.random()
    if r < 0.3:
        shift = rng.integers(-2, 3, (len(a), 3)) * pbc[None, :]
        a.positions += shift @ a.cell.array
        meta["unwrapped"] = "lattice"
    elif r < 0.5:
        a.positions += rng.uniform(-6, 6, 3)
        meta["unwrapped"] = "rigid"
    if rng.random() < 0.5:
        a = a[rng.permutation(len(a))]
    if rng.random() < 0.3:
        a.rotate(float(rng.uniform(0, 360)), rng.normal(size=3), rotate_cell=True)
        meta["rotated"] = True
    # things a caller may hang on an Atoms object; they must survive the call
    if rng.random() < 0.3:
        a.set_tags(rng.integers(0, 4, len(a)))
    if rng.random() < 0.3:
        a.info["label"] = "w%d" % int(rng.integers(1000))
    if rng.random() < 0.2 and len(a) > 1:
        a.set_constraint(FixAtoms(indices=[0]))
    meta["n"] = len(a)
    meta["pbc"] = "".join("T" if x else "F" for x in a.pbc)
    return a, meta


def _ortho_block(u, rng):
    """A small block of a crystal in an orthorhombic box (so that combining two
    of them gives a valid cell)."""
    c = u.cell.array
    if np.allclose(c, np.diag(np.diag(c))):
        blk = u * (int(rng.integers(2, 4)), int(rng.integers(2, 4)), int(rng.integers(1, 3)))
    else:
        blk = u * (3, 3, 2)
        p = blk.positions
        L = p.max(axis=0) - p.min(axis=0) + 2.0
        blk.set_cell(np.diag(L), scale_atoms=False)
    blk.positions -= blk.positions.min(axis=0)
    return blk


def gen_bad_cell(rng, maxn=40):
    """A structure with a zero-length cell vector along a periodic direction:
    the one permitted failure (ValueError)."""
    a, meta = gen_messy(rng, maxn)
    cell = a.cell.array.copy()
    pbc = a.pbc.copy()
    axes = [int(i) for i in range(3) if rng.random() < 0.5] or [int(rng.integers(3))]
    for i in axes:
        cell[i] = 0
        pbc[i] = True
    a.set_cell(cell, scale_atoms=False)
    a.pbc = pbc
    meta = dict(meta, bad="zero-vector-periodic", axes=axes)
    return a, meta


def gen_sbc_params(rng, n_atoms=None):
    p = {}
    if rng.random() < 0.5:
        if rng.random() < 0.5:
            p["bond_threshold"] = float(rng.choice([0.4, 0.5, 0.65, 0.8, 1.0]))
        if rng.random() < 0.4:
            p["pos_tol"] = float(rng.choice([0.2, 0.5, 0.7, 1.0]))
        if rng.random() < 0.4:
            p["max_cell_size"] = float(rng.choice([4, 6, 8]))
        if rng.random() < 0.5:
            # extremes are over-weighted: 1.0 = never merge (all overlaps go to
            # localisation), 0.0 = merge whenever one atom is shared
            p["merge_threshold"] = float(rng.choice([0.0, 0.1, 0.5, 0.9, 1.0, 1.0, 1.0]))
        if rng.random() < 0.4:
            p["radii"] = str(rng.choice(["covalent", "vdw", "vdw_covalent"]))
    return p


def radii_table(preset):
    if preset == "covalent":
        return covalent_radii
    # vdw_covalent: as implemented MatID never falls back (outside the claimed
    # set, DESIGN.md section 6); the generators only use elements with a vdW radius
    return vdw_radii


def harness_radii(params, numbers):
    """Per-atom radii computed from ase.data, independently of MatID."""
    r = params.get("radii", "covalent")
    if isinstance(r, dict):
        return np.array(r["custom"], dtype=float)
    return np.asarray(radii_table(r))[np.asarray(numbers)]


# ---------------------------------------------------------------------------
# crystal family (C02 / C04)

ELEMS = [
    (chemical_symbols[z], reference_states[z]["symmetry"])
    for z in range(1, 93)
    if reference_states[z] and reference_states[z].get("symmetry") in ("fcc", "bcc", "hcp", "diamond", "sc")
]
COMPOUNDS = {
    "NaCl": ("rocksalt", dict(a=5.64)),
    "MgO": ("rocksalt", dict(a=4.21)),
    "LiF": ("rocksalt", dict(a=4.03)),
    "TiN": ("rocksalt", dict(a=4.24)),
    "ZnS": ("zincblende", dict(a=5.41)),
    "GaAs": ("zincblende", dict(a=5.65)),
    "SiC": ("zincblende", dict(a=4.36)),
    "CuZn": ("cesiumchloride", dict(a=2.95)),
    "NiAl": ("cesiumchloride", dict(a=2.89)),
    "FeAl": ("cesiumchloride", dict(a=2.91)),
    "CaF2": ("fluorite", dict(a=5.46)),
    "ZrO2": ("fluorite", dict(a=5.07)),
    "Li2O": ("antifluorite", dict(a=4.62)),
    "ZnO": ("wurtzite", dict(a=3.25, c=5.2)),
    "GaN": ("wurtzite", dict(a=3.19, c=5.19)),
    "SrTiO3": ("perovskite", dict(a=3.905)),
    "BaTiO3": ("perovskite", dict(a=4.0)),
    "TiO2": ("rutile", dict(a=4.594, c=2.959, u=0.305)),
    "SnO2": ("rutile", dict(a=4.737, c=3.186, u=0.307)),
}
MATERIALS = [e for e, _ in ELEMS] + list(COMPOUNDS)


def conv_cell(name):
    el = dict(ELEMS)
    if name in el:
        st = el[name]
        if st in ("fcc", "bcc", "diamond", "sc"):
            return bulk(name, cubic=True), st
        return bulk(name), st
    st, kw = COMPOUNDS[name]
    if st == "antifluorite":
        a = kw["a"]
        return crystal(["Li", "O"], [(0.25, 0.25, 0.25), (0, 0, 0)], spacegroup=225, cellpar=[a, a, a, 90, 90, 90]), st
    if st == "perovskite":
        a = kw["a"]
        A, B = name[:2], name[2:4]
        return (
            crystal([A, B, "O"], [(0, 0, 0), (0.5, 0.5, 0.5), (0.5, 0.5, 0)], spacegroup=221, cellpar=[a, a, a, 90, 90, 90]),
            st,
        )
    if st == "rutile":
        a, c, u = kw["a"], kw["c"], kw["u"]
        M = name[:2]
        return crystal([M, "O"], [(0, 0, 0), (u, u, 0)], spacegroup=136, cellpar=[a, a, c, 90, 90, 90]), st
    if st == "wurtzite":
        return bulk(name, crystalstructure=st, **kw), st
    return bulk(name, crystalstructure=st, cubic=True, **kw), st


def heights(cell):
    v = abs(np.linalg.det(cell))
    return np.array([v / np.linalg.norm(np.cross(cell[(i + 1) % 3], cell[(i + 2) % 3])) for i in range(3)])


def precond(a, margin=0.15, bond=0.65, overlap=-0.6):
    """Independent bonding / overlap precondition with a safety margin.
    Returns None if the sample qualifies, else the reason it is discarded."""
    c = a.cell.array
    if not c.any(axis=1).all():
        _, D = get_distances(a.positions, cell=complete_cell(c), pbc=a.pbc)
    else:
        D = a.get_all_distances(mic=True)
    r = covalent_radii[a.numbers]
    R = D - r[:, None] - r[None, :]
    np.fill_diagonal(R, np.inf)
    if R.min() < overlap + margin:
        return "overlap"
    n, _ = cg.connected_components(R <= bond - margin)
    if n > 1:
        return "notbonded"
    return None


def prim_ok(conv, max_cell_size=6.0):
    import spglib

    prim = spglib.find_primitive((conv.cell.array, conv.get_scaled_positions(), conv.numbers), symprec=1e-3)
    if prim is None:
        return False
    if len(prim[2]) > 6:
        return False
    return bool(np.linalg.norm(prim[0], axis=1).max() < 0.95 * max_cell_size)


MILLERS = [(1, 0, 0), (1, 1, 0), (1, 1, 1), (0, 0, 1)]


def build_crystal(name, kind, miller, layers, pbcz, min_height=12.5):
    conv, st = conv_cell(name)
    if kind == "bulk":
        rep = np.ceil(min_height / heights(conv.cell.array)).astype(int)
        a = conv * tuple(int(x) for x in rep)
        a.pbc = True
    else:
        s = surface(conv, miller, layers, vacuum=7, periodic=True)
        c = s.cell.array
        area = np.linalg.norm(np.cross(c[0], c[1]))
        h = np.array([area / np.linalg.norm(c[1]), area / np.linalg.norm(c[0])])
        rep = np.ceil(min_height / h).astype(int)
        a = s * (int(rep[0]), int(rep[1]), 1)
        a.pbc = [True, True, bool(pbcz)]
    return a, conv, st


def present(a, noise, rng, rotate=True):
    """Noise (<= noise per atom), permutation, rigid rotation, translation.
    Returns (new Atoms, permutation) with new[i] == old[perm[i]]."""
    b = a.copy()
    if noise:
        d = rng.normal(size=(len(b), 3))
        d /= np.linalg.norm(d, axis=1)[:, None]
        b.positions += d * noise * rng.random((len(b), 1))
    # atom ordering: mostly shuffled, sometimes as built or reversed
    r = rng.random()
    if r < 0.15:
        perm = np.arange(len(b))
    elif r < 0.25:
        perm = np.arange(len(b))[::-1]
    else:
        perm = rng.permutation(len(b))
    b = b[perm]
    if rotate:
        b.rotate(float(rng.uniform(0, 360)), rng.normal(size=3), rotate_cell=True)
        # rigid translation; sometimes larger than the vacuum, so that a slab leaves the
        # cell along its non-periodic axis
        amp = 5.0 if rng.random() < 0.7 else 15.0
        b.positions += rng.uniform(-amp, amp, 3)
    return b, perm


def gen_crystal(rng, maxn=300, noises=(0, 0.02, 0.05), bulk_share=0.25):
    """One qualifying single-crystal sample of the C02 family, or (None, reason)."""
    name = MATERIALS[int(rng.integers(len(MATERIALS)))]
    kind = "bulk" if rng.random() < bulk_share else "slab"
    try:
        conv, st = conv_cell(name)
    except Exception as e:  # pragma: no cover
        return None, "buildfail:" + type(e).__name__
    miller = MILLERS[int(rng.integers(4))]
    layers = int(rng.integers(3, 5))
    pbcz = bool(rng.integers(2))
    noise = float(noises[int(rng.integers(len(noises)))])
    recipe = {
        "family": "crystal",
        "material": name,
        "structure": st,
        "kind": kind,
        "miller": "".join(str(m) for m in miller) if kind == "slab" else "-",
        "layers": layers if kind == "slab" else 0,
        "pbcz": bool(pbcz) if kind == "slab" else True,
        "noise": noise,
    }
    try:
        a, conv, st = build_crystal(name, kind, miller, layers, pbcz)
    except Exception as e:
        return None, "buildfail:" + type(e).__name__
    if len(a) > maxn:
        # dense crystals (e.g. diamond C: 512 atoms) only reach the required cell heights in
        # larger supercells; a share of them is admitted
        if not (kind == "bulk" and len(a) <= 520 and rng.random() < 0.5):
            return None, "large"
    if not prim_ok(conv):
        return None, "prim"
    pc = precond(a)
    if pc:
        return None, "pre-" + pc
    if kind == "slab" and not pbcz and rng.random() < 0.15:
        # the non-periodic cell vector does not span the slab (zero or much too short)
        cell = a.cell.array.copy()
        cell[2] = [0.0, 0.0, 0.0 if rng.random() < 0.6 else float(rng.uniform(1.0, 4.0))]
        a.set_cell(cell, scale_atoms=False)
        recipe["short_c"] = True
    b, perm = present(a, noise, rng)
    if noise:
        pc = precond(b, margin=0.15 - 2 * noise)
        if pc:
            return None, "pre-noise-" + pc
    recipe["n"] = len(b)
    return (b, recipe, conv, a), None


def represent_crystal(base, recipe, rng):
    """Another presentation (noise realisation, permutation, rotation,
    translation) of the same crystal sample, or None if it does not qualify."""
    noise = recipe.get("noise", 0)
    b, perm = present(base, noise, rng)
    if noise and precond(b, margin=0.15 - 2 * noise):
        return None
    return b


# ---------------------------------------------------------------------------
# two-material stacks (C03)

FCC = [
    (chemical_symbols[z], reference_states[z]["a"])
    for z in range(1, 93)
    if reference_states[z] and reference_states[z].get("symmetry") == "fcc"
]
BCC = [
    (chemical_symbols[z], reference_states[z]["a"])
    for z in range(1, 93)
    if reference_states[z] and reference_states[z].get("symmetry") == "bcc"
]
PAIRS = []
for _fam, _facets, _lat in ((FCC, ("100", "111"), "fcc"), (BCC, ("100", "110"), "bcc")):
    for _s1, _a1 in _fam:
        for _s2, _a2 in _fam:
            if _s1 != _s2 and abs(_a1 - _a2) / _a1 < 0.05:
                for _f in _facets:
                    PAIRS.append((_lat, _f, _s1, _a1, _s2, _a2))


def _slab(lat, facet, sym, a, size):
    fn = {"fcc100": fcc100, "fcc111": fcc111, "bcc100": bcc100, "bcc110": bcc110}[lat + facet]
    if facet == "100":
        return fn(sym, size=size, a=a)
    return fn(sym, size=size, a=a, orthogonal=False)


def gen_stack(rng, maxn=300):
    """One qualifying two-material stack (built by layer substitution so that
    the stacking sequence continues across the interface), or (None, reason).
    Returns ((atoms, recipe, setA, setB), None)."""
    lat, facet, s1, a1, s2, a2 = PAIRS[int(rng.integers(len(PAIRS)))]
    # thin slabs are the hard edge of the family ("at least three layers"): over-weighted
    n1, n2 = int(rng.choice([3, 3, 3, 4, 4, 5])), int(rng.choice([3, 3, 3, 4, 4, 5]))
    rep = int(rng.integers(4, 6))
    pbcz = bool(rng.integers(2))
    noise = [0.0, 0.03][int(rng.integers(2))]
    recipe = {
        "family": "stack",
        "lattice": lat,
        "facet": facet,
        "bottom": s1,
        "top": s2,
        "n1": n1,
        "n2": n2,
        "rep": rep,
        "pbcz": pbcz,
        "noise": noise,
    }
    st = _slab(lat, facet, s1, a1, (rep, rep, n1 + n2))
    z = st.positions[:, 2]
    levels = np.unique(np.round(z, 4))
    if len(levels) != n1 + n2:
        return None, "levels"
    top = z > levels[n1 - 1] + 1e-3
    st.numbers[top] = atomic_numbers[s2]
    period = 3 if (lat, facet) == ("fcc", "111") else 2
    superlattice = bool(pbcz and (n1 + n2) % period == 0 and rng.random() < 0.6)
    if superlattice:
        # periodic stacking without vacuum: ...A|B|A|B..., the stacking sequence continues
        # across the cell boundary (whole number of stacking periods)
        d = float(np.diff(levels).mean())
        cell = st.cell.array.copy()
        cell[2] = [0.0, 0.0, (n1 + n2) * d]
        st.set_cell(cell, scale_atoms=False)
        if rng.random() < 0.5:
            # another origin of the same periodic structure: a slab is cut by the cell face
            st.positions[:, 2] += float(rng.uniform(-0.5, 0.5)) * (n1 + n2) * d
    else:
        st.center(vacuum=7, axis=2)
    recipe["superlattice"] = superlattice
    st.pbc = [True, True, pbcz]
    if not pbcz and rng.random() < 0.3:
        # the non-periodic cell vector does not span the stack: zero (what ase.build gives
        # without vacuum) or much too short
        cell = st.cell.array.copy()
        cell[2] = [0.0, 0.0, 0.0 if rng.random() < 0.6 else float(rng.uniform(1.0, 4.0))]
        st.set_cell(cell, scale_atoms=False)
        recipe["short_c"] = True
    if len(st) > maxn:
        return None, "large"
    pc = precond(st)
    if pc:
        return None, "pre-" + pc
    pres = present_stack(st, top, noise, rng)
    if pres is None:
        return None, "pre-noise"
    b, SA, SB = pres
    recipe["n"] = len(b)
    return (b, recipe, SA, SB, st, top), None


def present_stack(st, top, noise, rng):
    b = st.copy()
    if noise:
        d = rng.normal(size=(len(b), 3))
        d /= np.linalg.norm(d, axis=1)[:, None]
        b.positions += d * noise * rng.random((len(b), 1))
        pc = precond(b, margin=0.15 - 2 * noise)
        if pc:
            return None
    # atom ordering: as built (slab A then slab B, layer by layer), reversed, or shuffled
    r = rng.random()
    if r < 0.25:
        perm = np.arange(len(b))
    elif r < 0.4:
        perm = np.arange(len(b))[::-1]
    else:
        perm = rng.permutation(len(b))
    b = b[perm]
    inv = {int(p): i for i, p in enumerate(perm)}
    SA = sorted(inv[int(i)] for i in np.where(~top)[0])
    SB = sorted(inv[int(i)] for i in np.where(top)[0])
    if rng.random() < 0.5:
        b.rotate(float(rng.uniform(0, 360)), rng.normal(size=3), rotate_cell=True)
        b.positions += rng.uniform(-5, 5, 3)
    r = rng.random()
    if r < 0.4:
        # rigid translation of the whole stack, often much larger than the vacuum: a
        # vacuum-padded stack then lies partly or entirely outside its cell, below the
        # bottom face or above the top face (C03_g7: only atoms *below* the face mattered)
        amp = 10.0 if r < 0.15 else 30.0
        b.positions += rng.uniform(-amp, amp, 3)
    return b, SA, SB


# ---------------------------------------------------------------------------
# monolayers (C04)

MONO = {
    "graphene": lambda: ase.build.graphene(vacuum=6),
    "hBN": lambda: ase.build.graphene(formula="BN", a=2.50, vacuum=6),
    "MoS2-2H": lambda: ase.build.mx2(formula="MoS2", kind="2H", a=3.18, thickness=3.19, vacuum=6),
    "WSe2-2H": lambda: ase.build.mx2(formula="WSe2", kind="2H", a=3.32, thickness=3.36, vacuum=6),
    "TiS2-1T": lambda: ase.build.mx2(formula="TiS2", kind="1T", a=3.41, thickness=2.85, vacuum=6),
    "PtSe2-1T": lambda: ase.build.mx2(formula="PtSe2", kind="1T", a=3.73, thickness=2.6, vacuum=6),
}


def gen_monolayer(rng, maxn=300):
    name = list(MONO)[int(rng.integers(len(MONO)))]
    u = MONO[name]()
    u.pbc = [True, True, False]
    # square n x n supercells, n = 3..6 (the family the surveys cover; anisotropic supercells and
    # one-cell-wide ribbons were tried and show rare failures of the unchanged tree, DESIGN.md 10.4)
    n = int(rng.integers(3, 7))
    m = n
    a = u * (n, m, 1)
    pz = bool(rng.integers(2))
    a.pbc = [True, True, pz]
    if len(a) > maxn:
        return None, "large"
    noise = [0.0, 0.02][int(rng.integers(2))]
    b, perm = present(a, noise, rng, rotate=bool(rng.integers(2)))
    recipe = {"family": "monolayer", "material": name, "rep": n, "rep2": m, "reps4": bool(n == 4 or m == 4), "pbcz": pz, "noise": noise, "n": len(b)}
    return (b, recipe, u, a), None


def spec_to_atoms_cached(d):
    from matsim.sio import spec_to_atoms

    return spec_to_atoms(d)
