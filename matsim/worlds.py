"""World generation: (property, VERIF_SEED, world number, tier) -> world spec.

Swarm style: everything is drawn per world from named streams -- number of
clients, instance policy, workload mix, which fault kinds are enabled (often
none), whether the environment is perturbed, sizes, parameter variation.
"""

import numpy as np
from ase.data import covalent_radii
from ase.geometry import complete_cell, get_distances

from matsim import gens
from matsim.mic import exact_mic_distances
from matsim.prng import np_stream, stream
from matsim.sio import atoms_to_spec

TIERS = {
    "quick": dict(maxn=70, crystal_maxn=160, ops=(4, 10)),
    "thorough": dict(maxn=300, crystal_maxn=300, ops=(6, 14)),
}


# ---------------------------------------------------------------------------
# seed-atom strategies


def _bond_graph(a, bond=0.65):
    c = a.cell.array.copy()
    zero = ~c.any(axis=1)
    if zero.all():
        cell, pbc = None, None
    else:
        cell = complete_cell(c) if zero.any() else c
        pbc = a.pbc
    D = exact_mic_distances(a.positions, cell, pbc)
    r = covalent_radii[a.numbers]
    M = D - r[:, None] - r[None, :]
    np.fill_diagonal(M, np.inf)
    return M <= bond


BOUNDARY_SEEDS = [0, 0, 1, 2**31 - 1, 2**32 - 1, 2**63 - 1]


def seed_strategy(a, rng, allow=("int", "gen", "uniform", "extreme", "undercoord", "interface", "chain")):
    """Draws a seedspec for one CLUSTER operation."""
    n = len(a)
    kind = allow[int(rng.integers(len(allow)))]
    if kind in ("int", "gen"):
        # "all seeds": boundary values of the seed argument are over-weighted
        if rng.random() < 0.25:
            n_seed = int(BOUNDARY_SEEDS[int(rng.integers(len(BOUNDARY_SEEDS)))])
        else:
            n_seed = int(rng.integers(0, 10**6))
        return {"kind": kind, "n": n_seed}
    then = ["low", "high", "rand"][int(rng.integers(3))]
    r = int(rng.integers(0, 2**31 - 1))
    if kind == "uniform" or n < 3:
        k = int(rng.integers(1, min(n, 8) + 1))
        prio = [int(x) for x in rng.choice(n, k, replace=False)]
        return {"kind": "script", "strategy": "uniform", "prio": prio, "then": then, "r": r}
    if kind == "extreme":
        return {"kind": "script", "strategy": "extreme", "prio": [], "then": ["low", "high"][int(rng.integers(2))], "r": r}
    B = _bond_graph(a)
    coord = B.sum(axis=1)
    noise = rng.random(n)
    if kind == "undercoord":
        # corners, edges, surface layers, vacancy neighbours first
        order = np.lexsort((noise, coord))
        k = int(rng.integers(2, 9))
        return {"kind": "script", "strategy": "undercoord", "prio": [int(x) for x in order[:k]], "then": then, "r": r}
    if kind == "interface":
        num = a.numbers
        other = np.array([(B[i] & (num != num[i])).sum() for i in range(n)])
        cand = np.where(other > 0)[0]
        if len(cand) == 0:
            order = np.lexsort((noise, coord))
            prio = [int(x) for x in order[: int(rng.integers(2, 9))]]
        else:
            # alternate between the species at the interface
            rng.shuffle(cand)
            byz = {}
            for i in cand:
                byz.setdefault(int(num[i]), []).append(int(i))
            lists = list(byz.values())
            # every interface-adjacent atom before any interior atom (alternating species):
            # the schedule keeps drawing seeds whose neighbourhood holds the other material
            cap = 8 if rng.random() < 0.4 else 64
            prio = []
            while any(lists) and len(prio) < cap:
                for L in lists:
                    if L:
                        prio.append(L.pop(0))
            if rng.random() < 0.5:
                # one species first: all interface seeds of one slab in a row
                z0 = int(num[prio[0]])
                prio = [x for x in prio if int(num[x]) == z0] + [x for x in prio if int(num[x]) != z0]
        return {"kind": "script", "strategy": "interface", "prio": prio, "then": then, "r": r}
    # chain: a seed, then atoms just outside its search radius, then a neighbour of the first
    i0 = int(rng.integers(n))
    c = a.cell.array.copy()
    zero = ~c.any(axis=1)
    if zero.all():
        cell, pbc = None, None
    else:
        cell = complete_cell(c) if zero.any() else c
        pbc = a.pbc
    _, D = get_distances(a.positions[[i0]], a.positions, cell=cell, pbc=pbc)
    d = D[0]
    far = np.argsort(-d)
    near = np.argsort(d)
    prio = [i0] + [int(x) for x in far[: int(rng.integers(1, 4))]] + [int(x) for x in near[1 : int(rng.integers(2, 5))]]
    seen, out = set(), []
    for x in prio:
        if x not in seen:
            out.append(x)
            seen.add(x)
    return {"kind": "script", "strategy": "chain", "prio": out, "then": then, "r": r}


# ---------------------------------------------------------------------------
# faults


def draw_fault(rng, kinds, sites=None):
    kind = kinds[int(rng.integers(len(kinds)))]
    if kind == "dep-raise":
        f = {"kind": kind, "f_site": float(rng.random()), "f_nth": float(rng.random()), "f_exc": float(rng.random())}
        if sites:
            f["sites"] = list(sites)
        return f
    return {"kind": "async-crash", "f_k": float(rng.random())}


# ---------------------------------------------------------------------------
# common: interleave client scripts into one total order (the op schedule)


def interleave(scripts, rs):
    """scripts: list of lists of ops (each op may reference earlier ops of the
    same client by *local* index via '_lref').  Returns the total order with
    global 'ref' indices."""
    pos = [0] * len(scripts)
    order = []
    gidx = [dict() for _ in scripts]
    while True:
        live = [c for c in range(len(scripts)) if pos[c] < len(scripts[c])]
        if not live:
            break
        c = live[rs.randrange(len(live))]
        op = dict(scripts[c][pos[c]])
        if "_lref" in op:
            op["ref"] = gidx[c][op.pop("_lref")]
        op["client"] = c
        gidx[c][pos[c]] = len(order)
        order.append(op)
        pos[c] += 1
    return order


def transformed(a, rng):
    """A state the caller could bring its own Atoms object into between two
    calls: rigid rotation + translation, a small rattle, or a reordering."""
    b = a.copy()
    r = rng.random()
    if r < 0.4:
        b.rotate(float(rng.uniform(0, 360)), rng.normal(size=3), rotate_cell=True)
        b.positions += rng.uniform(-3, 3, 3)
        how = "rotate"
    elif r < 0.75:
        b.positions += rng.normal(scale=0.03, size=(len(b), 3))
        how = "rattle"
    else:
        perm = rng.permutation(len(b))
        b.positions = b.positions[perm]
        b.numbers = b.numbers[perm]
        how = "reorder"
    return b, how


def _inst_name(policy, client):
    if policy == "shared":
        return "S"
    if policy == "per_client":
        return "S%d" % client
    return "fresh"


ENV_KINDS = ["np_seed", "py_seed", "np_draw", "printoptions", "touch_sklearn", "warnings"]


def _base_spec(prop, root, w, tier):
    return {"property": prop, "seed": root, "world": w, "tier": tier, "structures": {}, "instances": {}, "ops": []}


# ---------------------------------------------------------------------------
# C01 / C13: SBC sessions on the messy family


def gen_sbc_world(prop, root, w, tier):
    T = TIERS[tier]
    rc = np_stream(root, prop, w, "config")
    rw = np_stream(root, prop, w, "workload")
    rsd = np_stream(root, prop, w, "seedatoms")
    rf = np_stream(root, prop, w, "faults")
    re_ = np_stream(root, prop, w, "env")
    rs = stream(root, prop, w, "schedule")

    spec = _base_spec(prop, root, w, tier)
    n_clients = int(rc.integers(1, 4))
    policy = ["shared", "per_client", "fresh"][int(rc.integers(3))]
    n_ops = int(rc.integers(T["ops"][0], T["ops"][1] + 1))
    fault_world = rc.random() < 0.5
    fault_kinds = []
    if fault_world:
        fault_kinds = [k for k in ("dep-raise", "async-crash") if rc.random() < 0.7] or ["dep-raise"]
    env_world = rc.random() < 0.5
    vary_params = rc.random() < 0.6
    maxn = int(rc.choice([20, 40, T["maxn"], T["maxn"]]))
    # swarm flavour "overlap-heavy": merging (almost) switched off, structures on which several
    # regions are found, many schedules -- drives overlap resolution and cleaning
    overlap_world = rc.random() < 0.25
    if overlap_world:
        maxn = T["maxn"] if tier == "quick" else int(rc.choice([70, 120]))
    spec["config"] = dict(clients=n_clients, policy=policy, faults=fault_kinds, env=env_world, vary_params=vary_params, maxn=maxn, overlap_heavy=overlap_world)

    # structures
    n_struct = int(rc.integers(1, 4))
    sids = []
    for k in range(n_struct):
        if prop == "C13":
            want = [None, "crystallite", "defect", "crystallite", "stack2"][int(rw.integers(5))]
        else:
            want = None
        if overlap_world:
            want = ["defect", "stack2", "sidebyside", "crystallite"][int(rw.integers(4))]
        a, meta = gens.gen_messy(rw, maxn=maxn, want_kind=want, coincident=(prop == "C01" and rw.random() < 0.06))
        sid = "s%d" % k
        spec["structures"][sid] = atoms_to_spec(a, meta)
        sids.append((sid, a))
    if prop == "C01" and rw.random() < 0.5:
        a, meta = gens.gen_bad_cell(rw, maxn=min(maxn, 40))
        spec["structures"]["bad"] = atoms_to_spec(a, meta)

    def params_for(a):
        if overlap_world:
            p = {"merge_threshold": float(rw.choice([1.0, 1.0, 1.0, 0.9]))}
            if rw.random() < 0.3:
                p["bond_threshold"] = float(rw.choice([0.4, 0.5, 0.8]))
            return p
        if not vary_params:
            return {}
        p = gens.gen_sbc_params(rw)
        if rw.random() < 0.15:
            # custom per-atom radii: covalent radii scaled element-wise
            scale = float(rw.choice([0.9, 1.1, 1.25]))
            p["radii"] = {"custom": [float(x) for x in covalent_radii[a.numbers] * scale]}
        if prop == "C13" and rw.random() < 0.5:
            p["bond_threshold"] = float(rw.choice([0.4, 0.5, 0.65, 0.8, 1.0]))
            if rw.random() < 0.5 and not isinstance(p.get("radii"), dict):
                p["radii"] = str(rw.choice(["covalent", "vdw"]))
        return p

    budget = n_ops
    scripts = [[] for _ in range(n_clients)]
    c = 0
    while budget > 0:
        script = scripts[c % n_clients]
        client = c % n_clients
        c += 1
        si = int(rw.integers(len(sids)))
        sid, a = sids[si]
        inst = _inst_name(policy, client)
        if rw.random() < 0.12 and "coincident" not in (spec["structures"][sid].get("meta") or {}):
            # the caller modifies its own Atoms object in place and keeps using it
            b, how = transformed(a, rw)
            if gens._min_pair_ok(b):
                nsid = "%s_t%d" % (sid.split("_t")[0], c)
                meta = dict(spec["structures"][sid].get("meta") or {}, transformed=how)
                spec["structures"][nsid] = atoms_to_spec(b, meta)
                script.append({"op": "TRANSFORM", "src": sid, "dst": nsid})
                sids[si] = (nsid, b)
                sid, a = nsid, b
                budget -= 1
        if env_world and re_.random() < 0.35:
            script.append({"op": "ENV", "kind": ENV_KINDS[int(re_.integers(len(ENV_KINDS)))], "x": int(re_.integers(0, 10**6))})
            budget -= 1
        if prop == "C01" and "bad" in spec["structures"] and rw.random() < 0.15:
            script.append({"op": "CLUSTER_BAD", "s": "bad", "params": {}, "seedspec": {"kind": "int", "n": 7}, "inst": inst})
            budget -= 1
            continue
        op = {"op": "CLUSTER", "s": sid, "params": params_for(a), "seedspec": seed_strategy(a, rsd), "inst": inst}
        if fault_kinds and prop == "C01" and rf.random() < 0.33:
            op["fault"] = draw_fault(rf, fault_kinds)
        if tier == "thorough" or rc.random() < 0.1:
            op["xref"] = True
        li = len(script)
        script.append(op)
        budget -= 1
        # follow-ups on the retained handles
        nf = int(rw.integers(0, 4)) if prop == "C13" else int(rw.integers(0, 2))
        for _ in range(nf):
            kind = rw.random()
            rank = int(rw.integers(0, 4))
            if prop == "C13":
                if kind < 0.7:
                    f = {"op": "DIM", "_lref": li, "rank": rank}
                    if fault_kinds and rf.random() < 0.3:
                        f["fault"] = draw_fault(rf, fault_kinds, sites=["ext.get_displacement_tensor", "geom.get_clusters"])
                elif kind < 0.8:
                    f = {"op": "CELL", "_lref": li, "rank": rank}
                elif kind < 0.9:
                    f = {"op": "ATOMS", "_lref": li, "rank": rank}
                else:
                    f = {"op": "RECHECK", "_lref": li}
            else:
                if kind < 0.4:
                    # the same call again later in the history: must give the same answer
                    f = {k: v for k, v in op.items() if k not in ("fault",)}
                    f = dict(f)
                elif kind < 0.6:
                    f = {"op": "RECHECK", "_lref": li}
                elif kind < 0.8:
                    f = {"op": "ATOMS", "_lref": li, "rank": rank}
                else:
                    f = {"op": "CELL", "_lref": li, "rank": rank}
            script.append(f)
            budget -= 1
    # C13 pattern "lazy getter after a later clustering": the same structure is clustered twice
    # with other radii / thresholds on the same instance, and the first call's handles are
    # queried only afterwards
    if prop == "C13" and rc.random() < 0.35:
        client = int(rw.integers(n_clients))
        script = scripts[client]
        sid, a = sids[int(rw.integers(len(sids)))]
        inst = _inst_name(policy if policy != "fresh" else "shared", client)
        choices = [{}, {"radii": "vdw"}, {"bond_threshold": 0.4}, {"bond_threshold": 1.0},
                   {"radii": {"custom": [float(x) for x in covalent_radii[a.numbers] * 0.7]}, "bond_threshold": 1.0},
                   {"radii": {"custom": [float(x) for x in covalent_radii[a.numbers] * 1.25]}}]
        i1, i2 = rw.choice(len(choices), 2, replace=False)
        l1 = len(script)
        script.append({"op": "CLUSTER", "s": sid, "params": choices[int(i1)], "seedspec": seed_strategy(a, rsd), "inst": inst})
        script.append({"op": "CLUSTER", "s": sid, "params": choices[int(i2)], "seedspec": seed_strategy(a, rsd), "inst": inst})
        for rank in range(3):
            script.append({"op": "DIM", "_lref": l1, "rank": rank})
        spec["config"]["lazy_after_recluster"] = True
    # C13: every handle gets at least one DIM, and a late repeated DIM
    if prop == "C13":
        for script in scripts:
            extra = []
            for li, op in enumerate(script):
                if op["op"] == "CLUSTER":
                    for rank in range(int(rw.integers(1, 4))):
                        extra.append({"op": "DIM", "_lref": li, "rank": rank})
            script.extend(extra)
    spec["ops"] = interleave(scripts, rs)
    return spec


# ---------------------------------------------------------------------------
# C17: classifier sessions

CLF_VARIANTS = [
    {},
    {},
    {"cluster_threshold": 3.0},
    {"cluster_threshold": 4.0},
    {"bond_threshold": 0.6},
    {"bond_threshold": 0.9},
    {"min_coverage": 0.3},
    {"min_coverage": 0.7},
    {"pos_tol": 0.5},
    {"pos_tol": [0.3, 0.6]},
    {"pos_tol": 0.5, "pos_tol_mode": "absolute"},
    {"max_cell_size": 8},
    {"max_cell_size": [6, 12]},
]


def gen_clf_world(prop, root, w, tier):
    T = TIERS[tier]
    rc = np_stream(root, prop, w, "config")
    rw = np_stream(root, prop, w, "workload")
    rf = np_stream(root, prop, w, "faults")
    re_ = np_stream(root, prop, w, "env")
    rs = stream(root, prop, w, "schedule")
    spec = _base_spec(prop, root, w, tier)
    n_clients = int(rc.integers(1, 4))
    policy = ["shared", "per_client", "fresh"][int(rc.integers(3))]
    n_ops = int(rc.integers(T["ops"][0], T["ops"][1] + 1))
    fault_kinds = []
    if rc.random() < 0.5:
        fault_kinds = [k for k in ("dep-raise", "async-crash") if rc.random() < 0.7] or ["dep-raise"]
    env_world = rc.random() < 0.5
    maxn = int(rc.choice([20, 40, min(T["maxn"], 150), min(T["maxn"], 150)]))
    spec["config"] = dict(clients=n_clients, policy=policy, faults=fault_kinds, env=env_world, maxn=maxn)
    # instances: one kwargs variant per instance name
    names = {"shared": ["S"], "per_client": ["S%d" % c for c in range(n_clients)], "fresh": ["fresh"]}[policy]
    for nm in names:
        kw = dict(CLF_VARIANTS[int(rc.integers(len(CLF_VARIANTS)))]) if rc.random() < 0.6 else {}
        spec["instances"][nm] = {"type": "Classifier", "kwargs": kw}
    n_struct = int(rc.integers(1, 4))
    sids = []
    for k in range(n_struct):
        want = [None, None, None, "surface_ads", "surface_ads", "single" if rw.random() < 0.3 else None][int(rw.integers(6))]
        a, meta = gens.gen_messy(rw, maxn=maxn, want_kind=want)
        if want == "surface_ads":
            # keep the slab geometry: periodic in-plane, full-rank cell
            a.pbc = [True, True, bool(rw.integers(2))]
            meta = dict(meta, pbc="".join("T" if x else "F" for x in a.pbc))
            if not a.cell.array.any(axis=1).all():
                from ase.geometry import complete_cell as _cc

                a.set_cell(_cc(a.cell.array), scale_atoms=False)
        if rw.random() < 0.15:
            # no cell at all (entirely non-periodic)
            a.set_cell([0, 0, 0], scale_atoms=False)
            a.pbc = False
            meta = dict(meta, nocell=True, pbc="FFF")
        elif not a.cell.array.any(axis=1).all():
            # C17's family: cells of non-zero volume, or entirely non-periodic
            # structures. A zero vector along a non-periodic axis of a partly
            # periodic structure is outside it.
            a.pbc = False
            meta = dict(meta, degenerate_cell=True, pbc="FFF")
        sid = "s%d" % k
        spec["structures"][sid] = atoms_to_spec(a, meta)
        sids.append(sid)
    if rw.random() < 0.4:
        a, meta = gens.gen_bad_cell(rw, maxn=min(maxn, 40))
        spec["structures"]["bad"] = atoms_to_spec(a, meta)
    scripts = [[] for _ in range(n_clients)]
    for t in range(n_ops):
        client = t % n_clients
        script = scripts[client]
        inst = _inst_name(policy, client)
        if env_world and re_.random() < 0.3:
            script.append({"op": "ENV", "kind": ENV_KINDS[int(re_.integers(len(ENV_KINDS)))], "x": int(re_.integers(0, 10**6))})
        if "bad" in spec["structures"] and rw.random() < 0.15:
            script.append({"op": "CLASSIFY_BAD", "s": "bad", "inst": inst})
            continue
        si = int(rw.integers(len(sids)))
        if rw.random() < 0.12:
            a_cur = gens.spec_to_atoms_cached(spec["structures"][sids[si]])
            b, how = transformed(a_cur, rw)
            if gens._min_pair_ok(b):
                nsid = "%s_t%d" % (sids[si].split("_t")[0], t)
                meta = dict(spec["structures"][sids[si]].get("meta") or {}, transformed=how)
                spec["structures"][nsid] = atoms_to_spec(b, meta)
                script.append({"op": "TRANSFORM", "src": sids[si], "dst": nsid})
                sids[si] = nsid
        op = {"op": "CLASSIFY", "s": sids[si], "inst": inst}
        if fault_kinds and rf.random() < 0.33:
            op["fault"] = draw_fault(rf, fault_kinds)
        if tier == "thorough" or rc.random() < 0.1:
            op["xref"] = True
        li = len(script)
        script.append(op)
        if rw.random() < 0.3:
            script.append({"op": "RECHECK", "_lref": li})
        if rw.random() < 0.25:
            # boundary probing of the coverage knob on the same structure
            script.append({"op": "CLASSIFY_EDGE", "s": op["s"], "inst": inst})
    spec["ops"] = interleave(scripts, rs)
    return spec


# ---------------------------------------------------------------------------
# C02 / C03 / C04: crystal workloads, many seed-atom schedules per structure

CRYSTAL_STRATS = ("int", "int", "gen", "uniform", "extreme", "undercoord", "chain")
STACK_STRATS = ("int", "gen", "uniform", "undercoord", "interface", "interface", "interface", "interface", "chain")


def _draw_sample(prop, rw, maxn):
    if prop == "C03":
        return gens.gen_stack(rw, maxn=maxn)
    if prop == "C04" and rw.random() < 0.4:
        return gens.gen_monolayer(rw, maxn=maxn)
    if prop == "C04":
        return gens.gen_crystal(rw, maxn=maxn, noises=(0, 0.02))
    return gens.gen_crystal(rw, maxn=maxn)


def gen_crystal_world(prop, root, w, tier):
    """One long-lived SBC ("S") serves every operation of the world: several
    seed-atom schedules on one crystal sample, on a second presentation of the
    same sample (same atom count, other rotation / ordering / noise realisation)
    and sometimes on a different sample, in a seeded interleaving."""
    T = TIERS[tier]
    rc = np_stream(root, prop, w, "config")
    rw = np_stream(root, prop, w, "workload")
    rsd = np_stream(root, prop, w, "seedatoms")
    rs = stream(root, prop, w, "schedule")
    spec = _base_spec(prop, root, w, tier)
    maxn = T["crystal_maxn"]
    discarded = {}
    samples = []
    want = 1 + int(rc.random() < 0.25)
    for _try in range(200):
        sample, why = _draw_sample(prop, rw, maxn)
        if sample is not None:
            samples.append(sample)
            if len(samples) >= want:
                break
        else:
            discarded[why] = discarded.get(why, 0) + 1
    spec["config"] = dict(clients=1, policy="shared", faults=[], env=False, discarded=discarded)
    if not samples:
        return spec
    strats = STACK_STRATS if prop == "C03" else CRYSTAL_STRATS
    structs = []  # (sid, atoms, recipe, expect, unit sid)
    for k, sample in enumerate(samples):
        a, recipe = sample[0], sample[1]
        sid = "s%d" % k
        usid = None
        if prop == "C04":
            usid = "unit%d" % k
            spec["structures"][usid] = atoms_to_spec(sample[2], {"family": "unitcell", "material": recipe["material"]})
        if prop == "C03":
            expect = {"kind": "pair", "A": sample[2], "B": sample[3]}
        elif prop == "C02":
            expect = {"kind": "single", "dim": 3 if recipe["kind"] == "bulk" else 2}
        else:
            expect = None
        spec["structures"][sid] = atoms_to_spec(a, recipe)
        structs.append((sid, a, recipe, expect, usid))
        # a second presentation of the same sample: same atom count, other orientation / ordering
        if rc.random() < 0.6:
            sid2 = sid + "p"
            if prop == "C03":
                pres = gens.present_stack(sample[4], sample[5], recipe["noise"], rw)
                if pres is not None:
                    b, SA, SB = pres
                    spec["structures"][sid2] = atoms_to_spec(b, dict(recipe, presentation=2))
                    structs.append((sid2, b, recipe, {"kind": "pair", "A": SA, "B": SB}, usid))
            else:
                if recipe["family"] == "monolayer":
                    b, _ = gens.present(sample[3], recipe["noise"], rw, rotate=bool(rw.integers(2)))
                else:
                    b = gens.represent_crystal(sample[3], recipe, rw)
                if b is not None:
                    spec["structures"][sid2] = atoms_to_spec(b, dict(recipe, presentation=2))
                    structs.append((sid2, b, recipe, expect, usid))
    n_sched = int(rc.integers(2, 5)) if tier == "quick" else int(rc.integers(3, 8))
    total_atoms = sum(len(x[1]) for x in structs)
    if total_atoms > 300:
        n_sched = max(2, n_sched // 2)
    elif total_atoms <= 200:
        n_sched += 2  # small structures are cheap: more schedules
    a0 = structs[0][1]
    # exhaustive-first: every atom in turn as the first seed (small structures only;
    # reported per structure, never as exhaustiveness of the property)
    exhaustive = len(structs) == 1 and len(a0) <= (60 if tier == "quick" else 120) and rc.random() < (0.1 if tier == "quick" else 0.2)
    units = []  # groups of ops that stay together (CLUSTER + its ANALYZE)
    if exhaustive:
        spec["config"]["exhaustive_first"] = True
    for sid, a, recipe, expect, usid in structs:
        ns = len(a) if exhaustive else n_sched
        for k in range(ns):
            if exhaustive:
                ss = {"kind": "script", "strategy": "exhaustive-first", "prio": [k], "then": "rand", "r": int(rsd.integers(0, 2**31 - 1))}
            else:
                ss = seed_strategy(a, rsd, allow=strats)
            op = {"op": "CLUSTER", "s": sid, "params": {}, "seedspec": ss, "inst": "S"}
            if expect:
                op["expect"] = expect
            if tier == "thorough" and k == 0:
                op["xref"] = True
            unit = [op]
            if prop == "C04":
                noise = recipe.get("noise", 0)
                unit.append({"op": "ANALYZE", "_rel": -1, "tol": 0.1 if not noise else 0.5, "source": usid, "mono": recipe["family"] == "monolayer"})
            units.append(unit)
    # the op schedule: a seeded order of the units
    rs.shuffle(units)
    # sometimes the second presentation is not a new object: the caller rotates /
    # reorders / rattles its own Atoms object in place and passes it again
    inplace = {}
    for sid, a, recipe, expect, usid in structs:
        if sid.endswith("p") and rc.random() < 0.5:
            inplace[sid] = sid[:-1]
    if inplace:
        for dst, src in inplace.items():
            first = [u for u in units if u[0].get("s") == src]
            second = [u for u in units if u[0].get("s") == dst]
            rest = [u for u in units if u[0].get("s") not in (src, dst)]
            units = first + [[{"op": "TRANSFORM", "src": src, "dst": dst}]] + second
            # other samples are interleaved around them
            for u in rest:
                units.insert(rs.randrange(len(units) + 1), u)
        spec["config"]["inplace_transform"] = True
    ops = []
    for unit in units:
        for op in unit:
            op = dict(op)
            if "_rel" in op:
                op["ref"] = len(ops) + op.pop("_rel")
            ops.append(op)
    spec["ops"] = ops
    return spec


GENERATORS = {
    "C01": gen_sbc_world,
    "C13": gen_sbc_world,
    "C17": gen_clf_world,
    "C02": gen_crystal_world,
    "C03": gen_crystal_world,
    "C04": gen_crystal_world,
}


def gen_world(prop, root, w, tier):
    return GENERATORS[prop](prop, root, w, tier)
