"""World runner: executes a world spec (a short history of public-API
operations) against the real MatID, checks the oracles after every event and
stops at the first violation.

A world is a pure function of (spec, tree).  Replay = run the same spec again.
"""

import copy
import json
import os
import random
import traceback
import warnings
from collections import Counter

import numpy as np

from matsim import gens, oracles
from matsim.faults import EXC, InjectedFault, Seams, SimCrash, legal_faults
from matsim.sched import SimHang, make_seed
from matsim.sio import Snapshot, atoms_digest, sha, spec_to_atoms, struct_digest

ENV_BASE_SEED = 12345


class HarnessError(Exception):
    """Something went wrong in the machinery itself (never a VIOLATION)."""


def _kw(params):
    """JSON params -> keyword arguments of SBC.get_clusters."""
    kw = dict(params)
    r = kw.get("radii")
    if isinstance(r, dict):
        kw["radii"] = np.array(r["custom"], dtype=float)
    return kw


def _exc_desc(e):
    return "%s: %s" % (type(e).__name__, str(e)[:160])


def _where(e):
    """Innermost frame of a traceback that lies inside matid (call site)."""
    tb = traceback.extract_tb(e.__traceback__)
    site = None
    for fr in tb:
        if "/matid/" in fr.filename:
            site = "%s:%s" % (fr.filename.split("/matid/")[-1], fr.name)
    return site


def _module_state():
    """Module-level mutable defaults of MatID that every Classifier shares
    (N5): the list objects are bound as default arguments at definition time,
    so they are pinned / restored *in place*."""
    from matid.data import constants

    return [v for k, v in sorted(vars(constants).items()) if isinstance(v, list) and not k.startswith("_")]


_PRISTINE_MODULE_STATE = None


def _pristine_module_state():
    global _PRISTINE_MODULE_STATE
    if _PRISTINE_MODULE_STATE is None:
        _PRISTINE_MODULE_STATE = [copy.deepcopy(v) for v in _module_state()]
    return _PRISTINE_MODULE_STATE


def reset_module_state():
    for lst, pristine in zip(_module_state(), _pristine_module_state()):
        lst[:] = copy.deepcopy(pristine)


class _GlobalEnv:
    """Save / pin / restore the process-global RNG state around a reference
    evaluation, so that the reference neither sees nor disturbs the world."""

    def __enter__(self):
        self.np_state = np.random.get_state()
        self.py_state = random.getstate()
        np.random.seed(ENV_BASE_SEED)
        random.seed(ENV_BASE_SEED)
        self.mod_state = [copy.deepcopy(v) for v in _module_state()]
        reset_module_state()
        return self

    def __exit__(self, *a):
        np.random.set_state(self.np_state)
        random.setstate(self.py_state)
        for lst, saved in zip(_module_state(), self.mod_state):
            lst[:] = saved
        return False


# Violation classes that each property's own statement licenses.  Anything else
# observed in a world of that property is counted as a probe ("out_of_scope:*")
# and is NOT reported: e.g. get_clusters raising in a C13 world is C01's
# business (C13 speaks only about clusters that were returned), input
# immutability is stated by C01 and C17 only, and "equal to the isolated
# execution" is the determinism clause of C01 (for C17: the same *class*).
_ALL = {"HANG", "CRASH"}
SCOPE = {
    "C01": _ALL | {"UNEXPECTED_EXC", "MISSING_VALUEERROR", "MALFORMED", "EMPTY", "DUP", "RANGE", "OVERLAP", "SPECIES",
                   "DISCONNECTED", "CELL_PBC", "NONDET_HISTORY", "NONDET_HASHSEED", "INPUT_MUTATED", "RESULT_MUTATED"},
    "C13": _ALL | {"DIM_MISMATCH", "DIM_UNSTABLE", "UNEXPECTED_EXC"},
    "C17": _ALL | {"UNEXPECTED_EXC", "MISSING_VALUEERROR", "CLASS_MISMATCH", "REGION", "NONDET_HISTORY", "NONDET_HASHSEED", "INPUT_MUTATED"},
    "C02": _ALL | {"INCOMPLETE", "WRONG_DIM", "UNEXPECTED_EXC"},
    "C03": _ALL | {"WRONG_SPLIT", "WRONG_DIM", "UNEXPECTED_EXC"},
    "C04": _ALL | {"CELL_PBC", "FORMULA", "IDENTITY", "ANALYZE_EXC", "UNEXPECTED_EXC", "NO_CLUSTER"},
}
# C13 speaks about the shortcut on returned clusters: only the DIM operation can violate it
SCOPE_OPS = {"C13": {"DIM"}}


def in_scope(prop, cls, opname):
    if cls not in SCOPE.get(prop, ()):
        return False
    ops = SCOPE_OPS.get(prop)
    if ops is not None and opname not in ops:
        return False
    return True


class World:
    def __init__(self, spec, journal=None, helper=None, collect_samples=True):
        self.spec = spec
        self.prop = spec["property"]
        self.journal = journal
        self.helper = helper
        self.atoms = {}
        self.snaps = {}
        self.instances = {}
        self.results = {}
        self.ref_cache = {}
        self.events = []
        self.violation = None
        self.stats = Counter()
        self.probes = Counter()
        self.fault_fired = Counter()
        self.nontrivial = set()
        self.samples = []
        self.schedules = set()
        self.logical_time = 0
        self.line_events = 0
        self.tainted_ops = set()

    # ------------------------------------------------------------------
    def _journal(self, i, phase):
        if self.journal is not None:
            self.journal(self.spec, i, phase)

    def _reset_env(self):
        k = sha([self.spec.get("seed"), self.spec.get("world"), self.prop])
        np.random.seed(int(k, 16) % (2**32))
        random.seed(int(k, 16))
        np.set_printoptions(edgeitems=3, threshold=1000, precision=8, suppress=False)
        reset_module_state()

    def _atoms(self, sid):
        if sid not in self.atoms:
            a = spec_to_atoms(self.spec["structures"][sid])
            self.atoms[sid] = a
            self.snaps[sid] = Snapshot(a)
        return self.atoms[sid]

    def _pristine(self, sid):
        return spec_to_atoms(self.spec["structures"][sid])

    def _instance(self, name, default_type):
        if name == "fresh":
            return self._new_instance(name, default_type)
        if name not in self.instances:
            self.instances[name] = self._new_instance(name, default_type)
        return self.instances[name]

    def _new_instance(self, name, default_type):
        from matid.classification.classifier import Classifier
        from matid.clustering.sbc import SBC

        desc = self.spec.get("instances", {}).get(name, {"type": default_type})
        if desc.get("type", default_type) == "Classifier":
            return Classifier(**desc.get("kwargs", {}))
        return SBC()

    def _violate(self, cls, i, detail, **extra):
        if self.violation is None:
            op = self.spec["ops"][i] if i is not None and i < len(self.spec["ops"]) else {}
            if not in_scope(self.prop, cls, op.get("op")):
                self.probes["out_of_scope:" + cls] += 1
                return
            sid = op.get("s")
            if sid is None and "ref" in op:
                sid = self.spec["ops"][op["ref"]].get("s") if op["ref"] < len(self.spec["ops"]) else None
            st = self.spec["structures"].get(sid, {}) if sid else {}
            self.violation = dict(
                property=self.prop,
                cls=cls,
                op_index=i,
                op=op.get("op"),
                detail=str(detail)[:400],
                recipe=st.get("meta"),
                struct=struct_digest(st) if st else None,
                **extra,
            )

    # ------------------------------------------------------------------
    def run(self):
        self._reset_env()
        warnings.simplefilter("ignore")
        ops = self.spec["ops"]
        for i, op in enumerate(ops):
            self._journal(i, "start")
            handler = getattr(self, "_op_" + op["op"], None)
            if handler is None:
                raise HarnessError("unknown op %r" % op["op"])
            ev = handler(i, op) or {}
            ev.update(i=i, op=op["op"])
            self.events.append(ev)
            self.stats["ops"] += 1
            self.stats["op_" + op["op"]] += 1
            # B: caller data untouched -- checked after every event, also after failures
            if self.violation is None and in_scope(self.prop, "INPUT_MUTATED", op["op"]):
                for sid, a in self.atoms.items():
                    d = self.snaps[sid].diff(a)
                    if d:
                        self._violate("INPUT_MUTATED", i, "structure %s: %s" % (sid, d))
                        break
            if self.violation is not None:
                break
        if self.violation is None:
            self._final_sweep()
        self._journal(len(ops), "done")
        return self.summary()

    def _final_sweep(self):
        # C: acknowledged results stay valid until the end of the world
        for j, r in sorted(self.results.items()):
            if r["kind"] == "clusters" and not r["tainted"]:
                try:
                    dg = oracles.clusters_digest(r["objs"])
                except Exception as e:
                    self._violate("RESULT_MUTATED", j, "digest raises %s" % _exc_desc(e))
                    return
                if dg != r["digest"]:
                    self._violate("RESULT_MUTATED", j, "clusters returned by op %d changed afterwards" % j)
                    return

    def summary(self):
        return dict(
            world=self.spec.get("world"),
            digest=sha(self.events),
            n_ops=self.stats["ops"],
            stats=dict(self.stats),
            probes=dict(self.probes),
            fault_fired=dict(self.fault_fired),
            violation=self.violation,
            nontrivial=sorted(self.nontrivial),
            schedules=sorted(self.schedules),
            interleaving=sha([(o.get("client", 0), o["op"], o.get("inst"), o.get("s")) for o in self.spec["ops"]]),
            samples=self.samples[:2],
            logical_time=self.logical_time,
            line_events=self.line_events,
        )

    # ------------------------------------------------------------------
    # helpers shared by CLUSTER-like ops

    def _resolve_fault(self, fault, counts, lines, file_lines=None):
        """Turn a fractional fault descriptor into a concrete one using the
        counts of the fault-free dry run (= the reference execution), so that
        faults land inside work, never after it."""
        if fault is None:
            return None
        if "resolved" in fault:
            return dict(fault["resolved"])
        kind = fault["kind"]
        if kind == "dep-raise":
            legal = legal_faults(counts, fault.get("sites"))
            if not legal:
                return None
            site, c, excs = legal[int(fault["f_site"] * len(legal)) % len(legal)]
            nth = 1 + int(fault["f_nth"] * c) % c
            exc = excs[int(fault["f_exc"] * len(excs)) % len(excs)]
            res = {"kind": kind, "site": site, "nth": nth, "exc": exc}
        elif kind == "async-crash":
            if not lines:
                return None
            f_k = fault["f_k"]
            # Half of the crashes are placed uniformly over all matid line events (dominated by
            # the hot loops), the other half file-stratified: uniform over the matid source files
            # that ran, then uniform over that file's own line events.  Both are pure functions of
            # the one drawn number f_k, so world generation (the PRNG stream) is unchanged.
            if file_lines and int(f_k * 1e6) % 2 == 1:
                rels = sorted(file_lines)
                rel = rels[int((f_k * 7919.0) % 1.0 * len(rels)) % len(rels)]
                n = file_lines[rel]
                res = {"kind": kind, "file": rel, "kf": 1 + int((f_k * 104729.0) % 1.0 * n) % n}
            else:
                res = {"kind": kind, "k": 1 + int(f_k * lines) % lines}
        else:
            raise HarnessError("unknown fault kind %r" % kind)
        fault["resolved"] = dict(res)  # recorded into the spec => replay file
        return res

    def _note_fault(self, sm, returned):
        if sm.fired is not None:
            f = sm.fired
            key = f["kind"] + (":" + f["site"] + ":" + f["exc"] if f["kind"] == "dep-raise" else "")
            self.fault_fired[key] += 1
            self.fault_fired["kind:" + f["kind"]] += 1
            if f["kind"] == "async-crash" and f.get("at"):
                # reach of the crash placement: which matid source file the crash landed in
                mode = "file-stratified" if "file" in f else "uniform"
                self.fault_fired["crash-placement:" + mode] += 1
                self.fault_fired["crash-in[%s]:%s" % (mode, f["at"].rsplit(":", 1)[0])] += 1
            if returned:
                self.fault_fired["swallowed:" + (f.get("site") or "crash")] += 1
            return True
        return False

    def _run_clusters(self, atoms, params, seedspec, inst, arm=None, count_lines=False, budget=None):
        """Executes inst.get_clusters under the seams. Returns (outcome, sm, g)
        where outcome is ("ok", clusters) | ("exc", exception)."""
        seedval, g = make_seed(seedspec, max_draws=len(atoms) + 2)
        sm = Seams(arm=arm, budget=budget, count_lines=count_lines)
        try:
            with sm:
                res = inst.get_clusters(atoms, seed=seedval, **_kw(params))
            out = ("ok", res)
        except SimHang as e:
            out = ("hang", e)
        except SimCrash as e:
            out = ("exc", e)
        except Exception as e:
            out = ("exc", e)
        self.logical_time += sm.total
        self.line_events += sm.lines
        for k, v in sm.observed.items():
            self.probes[k] += v
        return out, sm, g

    def _ref_clusters(self, i, op, need_lines=False):
        from matid.clustering.sbc import SBC

        key = sha(["cluster", op["s"], op.get("params", {}), op["seedspec"]])
        c = self.ref_cache.get(key)
        if c is not None and (c["lines"] is not None or not need_lines):
            return c
        self._journal(i, "ref")
        atoms = self._pristine(op["s"])
        with _GlobalEnv():
            out, sm, g = self._run_clusters(
                atoms, op.get("params", {}), op["seedspec"], SBC(), count_lines=need_lines, budget=20_000_000
            )
        c = dict(
            out=out[0],
            counts=dict(sm.counts),
            total=sm.total,
            lines=sm.lines if need_lines else None,
            file_lines=sm.file_counts() if need_lines else None,
            picks=list(g.trace) if g is not None else None,
        )
        if out[0] == "ok":
            c["digest"] = oracles.clusters_digest(out[1])
            c["sizes"] = [len(x.indices) for x in out[1]]
        else:
            c["exc"] = out[1]
            c["digest"] = None
        self.ref_cache[key] = c
        return c

    # ------------------------------------------------------------------
    def _op_CLUSTER(self, i, op):
        params = op.get("params", {})
        atoms = self._atoms(op["s"])
        fault = op.get("fault")
        need_lines = bool(fault and fault["kind"] == "async-crash")
        ref = self._ref_clusters(i, op, need_lines)
        if ref["out"] == "hang":
            self._violate("HANG", i, "isolated execution: %s" % ref["exc"])
            return {"out": "hang"}
        arm = self._resolve_fault(fault, ref["counts"], ref["lines"], ref.get("file_lines"))
        inst = self._instance(op.get("inst", "fresh"), "SBC")
        self._journal(i, "real")
        out, sm, g = self._run_clusters(
            atoms, params, op["seedspec"], inst, arm=arm, count_lines=need_lines, budget=50 * ref["total"] + 20000
        )
        fired = self._note_fault(sm, out[0] == "ok")
        ev = {"out": out[0], "seam": sm.total, "fired": sm.fired, "picks": list(g.trace) if g is not None else None}
        if g is not None:
            self.schedules.add(sha([op["s"], g.trace]))
        else:
            self.schedules.add(sha([op["s"], op["seedspec"]]))
        if out[0] == "hang":
            self._violate("HANG", i, str(out[1]))
            return ev
        if fired:
            # tainted: may raise anything / return a degraded result; B is still checked by run()
            self.tainted_ops.add(i)
            if out[0] == "ok":
                self.results[i] = dict(kind="clusters", objs=out[1], digest=None, tainted=True, s=op["s"], params=params)
            ev["dg"] = "tainted"
            self.nontrivial.add(sha(["fault", op["s"], params, op["seedspec"], sm.fired, self._hist(op)]))
            return ev
        # ---- untainted: full obligations
        if out[0] == "exc":
            e = out[1]
            ev["exc"] = type(e).__name__
            self._violate(
                "UNEXPECTED_EXC",
                i,
                "get_clusters raised %s" % _exc_desc(e),
                exc=type(e).__name__,
                site=_where(e),
            )
            return ev
        clusters = out[1]
        try:
            dg = oracles.clusters_digest(clusters)
        except Exception as e:
            self._violate("MALFORMED", i, "result cannot be inspected: %s" % _exc_desc(e))
            return ev
        ev["dg"] = sha(dg)
        ev["sizes"] = [len(c.indices) for c in clusters]
        self.results[i] = dict(kind="clusters", objs=clusters, digest=dg, tainted=False, s=op["s"], params=params)
        # A: equals the isolated reference
        if ref["out"] != "ok":
            self._violate(
                "NONDET_HISTORY", i, "returned normally but the isolated execution raised %s" % _exc_desc(ref["exc"])
            )
        elif dg != ref["digest"]:
            self._violate(
                "NONDET_HISTORY",
                i,
                "result differs from the isolated execution of the same call: sizes %s vs %s"
                % (ev["sizes"], ref.get("sizes")),
            )
        if self.violation is not None:
            return ev
        # D: the property's statement about the returned value
        self._draws = len(g.trace) if g is not None else None
        self._check_D_clusters(i, op, atoms, params, clusters)
        # bookkeeping
        self._probe_clusters(op, clusters, g)
        hist = self._hist(op)
        if len(clusters) >= 1 or hist:
            self.nontrivial.add(sha([op["s"], params, ev["picks"] or op["seedspec"], hist]))
        if len(self.samples) < 2 and clusters:
            self.samples.append(
                dict(
                    op="CLUSTER",
                    structure=self.spec["structures"][op["s"]].get("meta"),
                    params=params,
                    seedspec=op["seedspec"] if op["seedspec"]["kind"] != "script" else {"kind": "script", "picks": ev["picks"]},
                    inst=op.get("inst", "fresh"),
                    cluster_sizes=ev["sizes"],
                )
            )
        # optional cross-interpreter reference (other PYTHONHASHSEED)
        if self.helper is not None and op.get("xref"):
            self._xref(i, {"kind": "cluster", "struct": self.spec["structures"][op["s"]], "params": params, "seedspec": op["seedspec"]}, dg)
        return ev

    def _hist(self, op):
        """Digest of the history context an op runs in (prior ops on the same
        instance / structure), used for the distinctness count."""
        inst = op.get("inst", "fresh")
        if inst == "fresh":
            return None
        prior = [
            (e.get("op"), e.get("out"))
            for e, o in zip(self.events, self.spec["ops"])
            if o.get("inst") == inst
        ]
        return sha(prior) if prior else None

    def _probe_clusters(self, op, clusters, g):
        self.probes["clusters_returned"] += len(clusters)
        if not clusters:
            self.probes["no_cluster"] += 1
        for c in clusters:
            if getattr(c, "_merged", False):
                self.probes["merged_cluster"] += 1
            reg = getattr(c, "_region", None)
            if reg is not None:
                try:
                    nb = len(set(reg.get_basis_indices()) | set())
                    if len(c.indices) < nb:
                        self.probes["atoms_dropped_after_tracking"] += 1
                except Exception:
                    pass
        r = op.get("params", {}).get("radii", "covalent")
        if r != "covalent":
            self.probes["non_covalent_radii"] += 1

    def _check_D_clusters(self, i, op, atoms, params, clusters):
        prop = self.prop
        if prop in ("C01", "C13"):
            errs = oracles.wellformed_clusters(self._pristine(op["s"]), params, clusters) if prop == "C01" else []
            if errs:
                self._violate(errs[0][0], i, errs[0][1])
                return
        exp = op.get("expect")
        if not exp:
            return
        n = len(atoms)
        if exp["kind"] == "single":
            ok = len(clusters) == 1 and sorted(int(x) for x in clusters[0].indices) == list(range(n))
            if not ok:
                self._violate(
                    "INCOMPLETE",
                    i,
                    "expected one cluster with all %d atoms, got sizes %s" % (n, [len(c.indices) for c in clusters]),
                    sizes=[len(c.indices) for c in clusters],
                    draws=getattr(self, "_draws", None),
                    multi_draw=(None if getattr(self, "_draws", None) is None else bool(self._draws > 1)),
                )
                return
            if "dim" in exp:
                d = self._safe_dim(i, clusters[0])
                if self.violation is None and d != exp["dim"]:
                    self._violate("WRONG_DIM", i, "cluster dimensionality %r, expected %r" % (d, exp["dim"]))
        elif exp["kind"] == "pair":
            got = sorted(sorted(int(x) for x in c.indices) for c in clusters)
            want = sorted([sorted(exp["A"]), sorted(exp["B"])])
            if got != want:
                A, B = set(exp["A"]), set(exp["B"])
                self._violate(
                    "WRONG_SPLIT",
                    i,
                    "expected the two slabs (%d, %d atoms), got (size, in A, in B): %s"
                    % (len(A), len(B), [(len(c.indices), len(set(c.indices) & A), len(set(c.indices) & B)) for c in clusters]),
                    sizes=[len(c.indices) for c in clusters],
                )
                return
            for c in clusters:
                d = self._safe_dim(i, c)
                if self.violation is None and d != 2:
                    self._violate("WRONG_DIM", i, "slab cluster dimensionality %r, expected 2" % (d,))
                    return

    def _safe_dim(self, i, c):
        try:
            return c.get_dimensionality()
        except Exception as e:
            self._violate("UNEXPECTED_EXC", i, "get_dimensionality raised %s" % _exc_desc(e), exc=type(e).__name__, site=_where(e))
            return None

    # ------------------------------------------------------------------
    def _op_CLUSTER_BAD(self, i, op):
        atoms = self._atoms(op["s"])
        inst = self._instance(op.get("inst", "fresh"), "SBC")
        self._journal(i, "real")
        out, sm, g = self._run_clusters(atoms, op.get("params", {}), op["seedspec"], inst, budget=2_000_000)
        ev = {"out": out[0]}
        if out[0] == "exc" and isinstance(out[1], ValueError) and not isinstance(out[1], InjectedFault):
            ev["exc"] = "ValueError"
            self.probes["valueerror_path"] += 1
            self.nontrivial.add(sha(["bad", op["s"], self._hist(op)]))
            return ev
        if out[0] == "exc":
            self._violate("MISSING_VALUEERROR", i, "zero cell vector along a periodic axis: raised %s instead of ValueError" % _exc_desc(out[1]), exc=type(out[1]).__name__)
        elif out[0] == "hang":
            self._violate("HANG", i, str(out[1]))
        else:
            self._violate("MISSING_VALUEERROR", i, "zero cell vector along a periodic axis: returned %d clusters instead of raising ValueError" % len(out[1]))
        return ev

    # ------------------------------------------------------------------
    def _handle(self, op):
        r = self.results.get(op["ref"])
        if r is None or r["kind"] != "clusters" or not r["objs"]:
            return None, None
        k = op.get("rank", 0) % len(r["objs"])
        return r, k

    def _refdim(self, h, r):
        """The reference evaluation named by C13: matid.geometry.get_dimensionality on
        the cluster's own atoms with the radii and bond threshold of the clustering."""
        import matid.geometry

        params = r["params"]
        src = self._pristine(r["s"])
        R = gens.harness_radii(params, src.numbers)
        idx = [int(x) for x in h.indices]
        sub = h.get_atoms().copy()
        bt = params.get("bond_threshold", 0.65)
        sm = Seams(count_lines=False)
        with sm:
            val = matid.geometry.get_dimensionality(sub, bt, radii=R[idx])
        return val, sm

    def _op_DIM(self, i, op):
        r, k = self._handle(op)
        if r is None:
            return {"out": "skip"}
        h = r["objs"][k]
        fault = op.get("fault")
        need_lines = bool(fault and fault["kind"] == "async-crash")
        # reference evaluation (also the dry run that sizes the fault)
        try:
            if need_lines:
                import matid.geometry

                params = r["params"]
                R = gens.harness_radii(params, self._pristine(r["s"]).numbers)
                sub = h.get_atoms().copy()
                smr = Seams(count_lines=True)
                with smr:
                    refval = matid.geometry.get_dimensionality(sub, params.get("bond_threshold", 0.65), radii=R[[int(x) for x in h.indices]])
            else:
                refval, smr = self._refdim(h, r)
        except Exception as e:
            if r["tainted"]:
                return {"out": "skip-tainted"}
            self._violate("UNEXPECTED_EXC", i, "reference get_dimensionality raised %s" % _exc_desc(e), exc=type(e).__name__, site=_where(e))
            return {"out": "exc"}
        fl = smr.file_counts() if need_lines else None
        if fl is not None:
            # the dry run is the reference evaluation (matid.geometry.get_dimensionality called
            # directly); the real call additionally runs about ten line events of the shortcut in
            # clustering/cluster.py (cache test, radii gathering, sub-matrix cache fill), which is
            # where C13's cached state is written: make it a stratum of its own
            fl.setdefault("clustering/cluster.py", 10)
        arm = self._resolve_fault(fault, smr.counts, smr.lines if need_lines else None, fl)
        self._journal(i, "real")
        sm = Seams(arm=arm, budget=50 * smr.total + 1000, count_lines=need_lines)
        try:
            with sm:
                val = h.get_dimensionality()
            out = ("ok", val)
        except SimHang as e:
            out = ("hang", e)
        except SimCrash as e:
            out = ("exc", e)
        except Exception as e:
            out = ("exc", e)
        self.logical_time += sm.total
        self.line_events += sm.lines
        fired = self._note_fault(sm, out[0] == "ok")
        ev = {"out": out[0], "fired": sm.fired, "val": out[1] if out[0] == "ok" else None, "ref": refval}
        if out[0] == "hang":
            self._violate("HANG", i, str(out[1]))
            return ev
        if fired or r["tainted"]:
            ev["dg"] = "tainted"
            if fired:
                self.nontrivial.add(sha(["dimfault", r["s"], op["ref"], k, sm.fired]))
                self.probes["dim_fault_fired"] += 1
            return ev
        if out[0] == "exc":
            self._violate("UNEXPECTED_EXC", i, "Cluster.get_dimensionality raised %s" % _exc_desc(out[1]), exc=type(out[1]).__name__, site=_where(out[1]))
            return ev
        val = out[1]
        prev = r.setdefault("dims", {}).get(k)
        nprev = r.setdefault("ndim_calls", Counter())
        if nprev[k] and prev != val and prev is not _MISSING:
            self._violate("DIM_UNSTABLE", i, "repeated get_dimensionality returned %r then %r" % (prev, val))
            return ev
        r["dims"][k] = val
        nprev[k] += 1
        reg = getattr(h, "_region", None)
        dropped = False
        try:
            dropped = reg is not None and len(h.indices) < len(reg.get_basis_indices())
        except Exception:
            pass
        if dropped:
            self.probes["dim_on_cluster_with_dropped_atoms"] += 1
        if getattr(h, "_merged", False):
            self.probes["dim_on_merged_cluster"] += 1
        if r["params"].get("radii", "covalent") != "covalent":
            self.probes["dim_non_covalent_radii"] += 1
        if nprev[k] > 1:
            self.probes["dim_repeated"] += 1
        if val != refval:
            self._violate(
                "DIM_MISMATCH",
                i,
                "Cluster.get_dimensionality() = %r but get_dimensionality(cluster atoms, bond_threshold, radii) = %r "
                "(cluster of %d atoms, dropped_after_tracking=%s, merged=%s, radii=%s)"
                % (val, refval, len(h.indices), dropped, getattr(h, "_merged", False), _radii_name(r["params"])),
                shortcut=val,
                reference=refval,
                dropped=bool(dropped),
                merged=bool(getattr(h, "_merged", False)),
                radii=_radii_name(r["params"]),
            )
            return ev
        self.nontrivial.add(sha(["dim", r["s"], r["params"], op["ref"], k, nprev[k], dropped, self.events[op["ref"]].get("dg")]))
        return ev

    def _op_CELL(self, i, op):
        r, k = self._handle(op)
        if r is None or r["tainted"]:
            return {"out": "skip"}
        h = r["objs"][k]
        try:
            dg = atoms_digest(h.get_cell())
        except Exception as e:
            self._violate("UNEXPECTED_EXC", i, "Cluster.get_cell raised %s" % _exc_desc(e), exc=type(e).__name__)
            return {"out": "exc"}
        if dg != r["digest"][k]["cell"]:
            self._violate("RESULT_MUTATED", i, "prototype cell of cluster %d of op %d changed after it was returned" % (k, op["ref"]))
        return {"out": "ok", "dg": sha(dg)}

    def _op_ATOMS(self, i, op):
        r, k = self._handle(op)
        if r is None or r["tainted"]:
            return {"out": "skip"}
        h = r["objs"][k]
        src = self._pristine(r["s"])
        try:
            sub = h.get_atoms()
            n = len(h)
        except Exception as e:
            self._violate("UNEXPECTED_EXC", i, "Cluster.get_atoms/len raised %s" % _exc_desc(e), exc=type(e).__name__)
            return {"out": "exc"}
        idx = [int(x) for x in h.indices]
        if n != len(idx) or len(sub) != len(idx) or [int(z) for z in sub.numbers] != [int(z) for z in src.numbers[idx]]:
            self._violate("RESULT_MUTATED", i, "Cluster.get_atoms() does not match Cluster.indices")
        if idx != r["digest"][k]["indices"]:
            self._violate("RESULT_MUTATED", i, "indices of cluster %d of op %d changed after it was returned" % (k, op["ref"]))
        return {"out": "ok", "n": n}

    def _op_RECHECK(self, i, op):
        r = self.results.get(op["ref"])
        if r is None or r["tainted"]:
            return {"out": "skip"}
        if r["kind"] == "clusters":
            dg = oracles.clusters_digest(r["objs"])
        else:
            dg = oracles.classification_digest(r["obj"])
        if dg != r["digest"]:
            self._violate("RESULT_MUTATED", i, "result of op %d changed after it was returned" % op["ref"])
        return {"out": "ok", "dg": sha(dg)}

    # ------------------------------------------------------------------
    def _op_TRANSFORM(self, i, op):
        """The caller changes its own Atoms object in place (the MD / relaxation
        loop pattern) into the state recorded as structure op['dst'] and keeps
        passing the *same object*.  Later operations name op['dst']."""
        src, dst = op["src"], op["dst"]
        obj = self._atoms(src)
        new = spec_to_atoms(self.spec["structures"][dst])
        if len(new) != len(obj):
            raise HarnessError("TRANSFORM needs equal atom counts")
        obj.set_cell(new.cell.array, scale_atoms=False)
        obj.set_pbc(new.pbc)
        obj.set_atomic_numbers(new.numbers)
        obj.set_positions(new.positions, apply_constraint=False)
        del self.atoms[src]
        del self.snaps[src]
        self.atoms[dst] = obj
        self.snaps[dst] = Snapshot(obj)
        self.probes["caller_mutated_own_atoms"] += 1
        return {"out": "ok"}

    def _op_ENV(self, i, op):
        kind = op["kind"]
        x = int(op.get("x", 0))
        if kind == "np_seed":
            np.random.seed(x % (2**32))
        elif kind == "py_seed":
            random.seed(x)
        elif kind == "np_draw":
            np.random.rand(1 + x % 17)
            random.random()
        elif kind == "printoptions":
            np.set_printoptions(precision=3 + x % 5, suppress=bool(x % 2))
        elif kind == "touch_sklearn":
            import sklearn.cluster  # noqa: F401
        elif kind == "warnings":
            warnings.simplefilter("always" if x % 2 else "ignore")
        else:
            raise HarnessError("unknown ENV kind %r" % kind)
        self.probes["env_perturbation"] += 1
        return {"out": "ok", "kind": kind}

    # ------------------------------------------------------------------
    def _run_classify(self, atoms, clf, arm=None, count_lines=False, budget=None):
        sm = Seams(arm=arm, budget=budget, count_lines=count_lines)
        try:
            with sm:
                res = clf.classify(atoms)
            out = ("ok", res)
        except SimHang as e:
            out = ("hang", e)
        except SimCrash as e:
            out = ("exc", e)
        except Exception as e:
            out = ("exc", e)
        self.logical_time += sm.total
        self.line_events += sm.lines
        return out, sm

    def _ref_classify(self, i, op, need_lines=False):
        key = sha(["classify", op["s"], op["inst"], self.spec.get("instances", {}).get(op["inst"])])
        c = self.ref_cache.get(key)
        if c is not None and (c["lines"] is not None or not need_lines):
            return c
        self._journal(i, "ref")
        atoms = self._pristine(op["s"])
        with _GlobalEnv():
            clf = self._new_instance(op["inst"], "Classifier")
            out, sm = self._run_classify(atoms, clf, count_lines=need_lines, budget=20_000_000)
        c = dict(out=out[0], counts=dict(sm.counts), total=sm.total, lines=sm.lines if need_lines else None,
                 file_lines=sm.file_counts() if need_lines else None)
        if out[0] == "ok":
            c["digest"] = oracles.classification_digest(out[1])
        else:
            c["exc"] = out[1]
            c["digest"] = None
        self.ref_cache[key] = c
        return c

    def _op_CLASSIFY(self, i, op):
        import matid.geometry

        atoms = self._atoms(op["s"])
        fault = op.get("fault")
        need_lines = bool(fault and fault["kind"] == "async-crash")
        ref = self._ref_classify(i, op, need_lines)
        if ref["out"] == "hang":
            self._violate("HANG", i, "isolated execution: %s" % ref["exc"])
            return {"out": "hang"}
        arm = self._resolve_fault(fault, ref["counts"], ref["lines"], ref.get("file_lines"))
        clf = self._instance(op["inst"], "Classifier")
        self._journal(i, "real")
        out, sm = self._run_classify(atoms, clf, arm=arm, count_lines=need_lines, budget=50 * ref["total"] + 20000)
        fired = self._note_fault(sm, out[0] == "ok")
        ev = {"out": out[0], "seam": sm.total, "fired": sm.fired}
        if out[0] == "hang":
            self._violate("HANG", i, str(out[1]))
            return ev
        kwargs = self.spec.get("instances", {}).get(op["inst"], {}).get("kwargs", {})
        if fired:
            self.tainted_ops.add(i)
            ev["dg"] = "tainted"
            self.nontrivial.add(sha(["fault", op["s"], op["inst"], sm.fired, self._hist(op)]))
            return ev
        if out[0] == "exc":
            e = out[1]
            ev["exc"] = type(e).__name__
            self._violate("UNEXPECTED_EXC", i, "classify raised %s" % _exc_desc(e), exc=type(e).__name__, site=_where(e))
            return ev
        cl = out[1]
        try:
            dg = oracles.classification_digest(cl)
        except Exception as e:
            self._violate("REGION", i, "classification cannot be inspected: %s" % _exc_desc(e))
            return ev
        ev["dg"] = sha(dg)
        ev["type"] = dg["type"]
        self.results[i] = dict(kind="class", obj=cl, digest=dg, tainted=False, s=op["s"])
        self.probes["class_" + dg["type"]] += 1
        # A
        if ref["out"] != "ok":
            self._violate("NONDET_HISTORY", i, "returned normally but the isolated execution raised %s" % _exc_desc(ref["exc"]))
            return ev
        if dg["type"] != ref["digest"]["type"]:
            # the statement: "repeated calls give the same class"
            self._violate(
                "NONDET_HISTORY",
                i,
                "class differs from the isolated execution of the same call: %s vs %s" % (dg["type"], ref["digest"]["type"]),
            )
            return ev
        if dg != ref["digest"]:
            self.probes["same_class_other_region"] += 1
        # D
        w = self._pristine(op["s"])
        try:
            w.wrap()
            ref_dim = matid.geometry.get_dimensionality(w, kwargs.get("cluster_threshold", 3.5))
        except Exception as e:
            raise HarnessError("reference dimensionality failed: %s" % _exc_desc(e))
        errs = oracles.classification_consistent(atoms, kwargs, cl, ref_dim)
        if errs:
            self._violate(errs[0][0], i, errs[0][1])
            return ev
        hist = self._hist(op)
        if dg["type"] not in ("Unknown", "Class0D", "Atom") or hist:
            self.nontrivial.add(sha(["classify", op["s"], op["inst"], kwargs, hist]))
        if len(self.samples) < 2:
            self.samples.append(dict(op="CLASSIFY", structure=self.spec["structures"][op["s"]].get("meta"), classifier=kwargs, inst=op["inst"], result=dg["type"], dimensionality=ref_dim))
        if self.helper is not None and op.get("xref"):
            self._xref(i, {"kind": "classify", "struct": self.spec["structures"][op["s"]], "kwargs": kwargs}, dg)
        return ev

    def _op_CLASSIFY_EDGE(self, i, op):
        """Boundary probing of the min_coverage knob: an isolated probe run with
        min_coverage=0 tells how many atoms the best region covers (b of n); the
        real call then uses min_coverage just above b/n, where a Surface/Material2D
        answer would cover less than min_coverage of the atoms."""
        import matid.geometry
        from matid.classification.classifier import Classifier

        atoms = self._atoms(op["s"])
        n = len(atoms)
        kwargs = dict(self.spec.get("instances", {}).get(op["inst"], {}).get("kwargs", {}))
        key = sha(["edgeprobe", op["s"], kwargs])
        probe = self.ref_cache.get(key)
        if probe is None:
            self._journal(i, "ref")
            with _GlobalEnv():
                out, sm = self._run_classify(self._pristine(op["s"]), Classifier(**dict(kwargs, min_coverage=0.0)), budget=20_000_000)
            probe = {"b": None}
            if out[0] == "ok" and type(out[1]).__name__ in ("Surface", "Material2D"):
                try:
                    probe["b"] = len(set(int(x) for x in out[1].basis_indices))
                except Exception:
                    pass
            self.ref_cache[key] = probe
        b = probe["b"]
        if b is None or b >= n:
            return {"out": "skip"}
        mc = (b + 0.5) / n
        kw2 = dict(kwargs, min_coverage=mc)
        self._journal(i, "real")
        out, sm = self._run_classify(atoms, Classifier(**kw2), budget=20_000_000)
        ev = {"out": out[0], "mc": mc, "b": b}
        if out[0] == "hang":
            self._violate("HANG", i, str(out[1]))
            return ev
        if out[0] == "exc":
            e = out[1]
            self._violate("UNEXPECTED_EXC", i, "classify raised %s" % _exc_desc(e), exc=type(e).__name__, site=_where(e))
            return ev
        cl = out[1]
        w = self._pristine(op["s"])
        w.wrap()
        ref_dim = matid.geometry.get_dimensionality(w, kwargs.get("cluster_threshold", 3.5))
        errs = oracles.classification_consistent(atoms, kw2, cl, ref_dim)
        ev["type"] = type(cl).__name__
        if errs:
            self._violate(errs[0][0], i, errs[0][1] + " [min_coverage=%.6f just above the best region's %d/%d]" % (mc, b, n))
            return ev
        self.probes["coverage_edge_probed"] += 1
        self.nontrivial.add(sha(["edge", op["s"], kw2]))
        return ev

    def _op_CLASSIFY_BAD(self, i, op):
        atoms = self._atoms(op["s"])
        clf = self._instance(op["inst"], "Classifier")
        self._journal(i, "real")
        out, sm = self._run_classify(atoms, clf, budget=2_000_000)
        ev = {"out": out[0]}
        if out[0] == "exc" and isinstance(out[1], ValueError) and not isinstance(out[1], InjectedFault):
            self.probes["valueerror_path"] += 1
            self.nontrivial.add(sha(["bad", op["s"], self._hist(op)]))
            return ev
        if out[0] == "hang":
            self._violate("HANG", i, str(out[1]))
        elif out[0] == "exc":
            self._violate("MISSING_VALUEERROR", i, "zero-volume periodic cell: raised %s instead of ValueError" % _exc_desc(out[1]), exc=type(out[1]).__name__)
        else:
            self._violate("MISSING_VALUEERROR", i, "zero-volume periodic cell: returned %s instead of raising ValueError" % type(out[1]).__name__)
        return ev

    # ------------------------------------------------------------------
    def _op_ANALYZE(self, i, op):
        """C04: the README workflow on a retained cluster handle."""
        from matsim.c04 import analyze_op

        return analyze_op(self, i, op)

    # ------------------------------------------------------------------
    def _xref(self, i, request, dg):
        try:
            other = self.helper.ask(request)
        except Exception as e:
            raise HarnessError("helper interpreter failed: %s" % _exc_desc(e))
        self.stats["xref"] += 1
        if other.get("out") != "ok":
            self._violate("NONDET_HASHSEED", i, "interpreter with another PYTHONHASHSEED did not return normally: %s" % other.get("exc"))
            return
        from matsim.sio import digests_close

        if self.prop == "C17":
            dg, other = {"type": dg["type"]}, {"digest": {"type": other["digest"].get("type")}}
        why = digests_close(dg, other["digest"])
        if why:
            self._violate("NONDET_HASHSEED", i, "result differs in an interpreter with another PYTHONHASHSEED: %s" % why)


_MISSING = object()


def _radii_name(params):
    r = params.get("radii", "covalent")
    return "custom" if isinstance(r, dict) else r


def run_world(spec, journal=None, helper=None):
    w = World(copy.deepcopy(spec), journal=journal, helper=helper)
    summ = w.run()
    summ["spec"] = w.spec  # with resolved faults
    return summ
