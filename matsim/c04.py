"""C04: the README workflow on a retained cluster handle.

ANALYZE(ref, tol, source, mono): for "the cluster" of a single-material input
-- every returned cluster that holds at least half of the atoms; if there is
none the sample is *inconclusive* (completeness is C02's business) -- the
prototype cell fed to SymmetryAnalyzer must give the same material id, space
group number and Wyckoff occupation as the source crystal's own unit cell
analysed at the same tolerance; the cell must be periodic in three directions
for bulk crystals and slabs and in exactly two for monolayers, and must contain
a whole number of formula units.
"""

from collections import Counter
from functools import reduce
from math import gcd

import numpy as np

from matsim.sio import sha


def _signature(atoms, tol):
    from matid.symmetry.symmetryanalyzer import SymmetryAnalyzer

    an = SymmetryAnalyzer(atoms, symmetry_tol=tol)
    mid = an.get_material_id()
    sg = an.get_space_group_number()
    sets = an.get_wyckoff_sets_conventional(False)
    occ = sorted((str(s.wyckoff_letter), str(s.element), int(s.multiplicity)) for s in sets)
    return {"material_id": mid, "space_group": int(sg), "wyckoff": [list(x) for x in occ]}


def _formula_unit(numbers):
    c = Counter(int(z) for z in numbers)
    g = reduce(gcd, c.values())
    return {z: n // g for z, n in c.items()}


def analyze_op(world, i, op):
    from matsim.ops import HarnessError, _exc_desc, _where

    r = world.results.get(op["ref"])
    if r is None or r["kind"] != "clusters" or r["tainted"]:
        return {"out": "skip"}
    src_full = world._pristine(r["s"])
    n = len(src_full)
    big = [c for c in r["objs"] if 2 * len(c.indices) >= n]
    if not big:
        meta = world.spec["structures"][r["s"]].get("meta") or {}
        if op.get("mono") and min(meta.get("rep", 0), meta.get("rep2", meta.get("rep", 0))) >= 3:
            # a monolayer supercell with at least three repeats along both axes: the documented
            # workflow needs "the cluster" to exist (ribbons and crystals: inconclusive, see DESIGN.md)
            world._violate("NO_CLUSTER", i, "no cluster holds half of the %d atoms of the monolayer (sizes %s): there is no prototype cell to identify the material with"
                           % (n, [len(c.indices) for c in r["objs"]]))
            return {"out": "no-cluster"}
        world.probes["c04_inconclusive"] += 1
        return {"out": "inconclusive"}
    unit = world._pristine(op["source"])
    tol = op["tol"]
    key = sha(["sig", op["source"], tol])
    ref = world.ref_cache.get(key)
    if ref is None:
        try:
            ref = _signature(unit, tol)
        except Exception as e:
            # the source cell itself cannot be analysed at this tolerance: nothing to compare with
            world.probes["c04_source_unanalysable"] += 1
            world.ref_cache[key] = {"error": _exc_desc(e)}
            return {"out": "skip-source"}
        world.ref_cache[key] = ref
    if "error" in ref:
        return {"out": "skip-source"}
    fu = _formula_unit(unit.numbers)
    ev = {"out": "ok", "sigs": []}
    for c in big:
        cell = c.get_cell()
        if cell is None:
            world._violate("CELL_PBC", i, "cluster has no prototype cell")
            return ev
        npbc = int(np.sum(cell.get_pbc()))
        want = 2 if op.get("mono") else 3
        if npbc != want:
            world._violate("CELL_PBC", i, "prototype cell periodic in %d directions, expected %d" % (npbc, want), got=npbc, want=want)
            return ev
        cnt = Counter(int(z) for z in cell.get_atomic_numbers())
        ks = set()
        for z, k in fu.items():
            if cnt.get(z, 0) % k:
                ks.add(None)
            else:
                ks.add(cnt.get(z, 0) // k)
        if set(cnt) != set(fu) or len(ks) != 1 or None in ks or 0 in ks:
            world._violate("FORMULA", i, "prototype cell content %s is not a whole number of formula units %s" % (dict(cnt), fu))
            return ev
        try:
            sig = _signature(cell, tol)
        except Exception as e:
            world._violate("ANALYZE_EXC", i, "SymmetryAnalyzer on the prototype cell raised %s" % _exc_desc(e), exc=type(e).__name__, site=_where(e))
            return ev
        ev["sigs"].append(sha(sig))
        if sig != ref:
            what = [k for k in ("material_id", "space_group", "wyckoff") if sig[k] != ref[k]]
            world._violate(
                "IDENTITY",
                i,
                "prototype cell analysed at tol=%s gives %s=%s, source unit cell gives %s"
                % (tol, what, [sig[k] for k in what], [ref[k] for k in what]),
                fields=what,
            )
            return ev
        world.probes["c04_identified"] += 1
    world.nontrivial.add(sha(["analyze", r["s"], world.events[op["ref"]].get("picks") or world.spec["ops"][op["ref"]]["seedspec"], tol]))
    if len(world.samples) < 2:
        world.samples.append(
            dict(op="CLUSTER+ANALYZE", structure=world.spec["structures"][r["s"]].get("meta"), tol=tol, signature=ref, picks=world.events[op["ref"]].get("picks"))
        )
    return ev
