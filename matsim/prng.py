"""Named PRNG streams: one integer decides everything.

stream(root, prop, world, name) is a random.Random whose state depends only on
the four arguments.  Adding a draw to one stream never shifts another one, and
workers get disjoint world numbers, so nothing depends on the worker count.
"""

import hashlib
import random

import numpy as np


def _key(*parts) -> int:
    h = hashlib.sha256("/".join(str(p) for p in parts).encode()).digest()
    return int.from_bytes(h[:16], "big")


def stream(root, prop, world, name) -> random.Random:
    return random.Random(_key(root, prop, world, name))


def np_stream(root, prop, world, name) -> np.random.Generator:
    return np.random.Generator(np.random.PCG64(_key(root, prop, world, name)))


def sub_seed(root, prop, world, name) -> int:
    """A 31-bit integer derived from the same key (for APIs that want ints)."""
    return _key(root, prop, world, name) % (2**31 - 1)
