"""Minimisation of a failing world while the violation class persists.

ddmin over operations (keeping data dependencies), then: drop environment
perturbations, drop faults, fresh instances, shorten seed-atom scripts from the
tail, replace int seeds by the recorded picks; for the "all structures"
families also delete atoms.  Every candidate is a complete world spec that is
executed against the real code.
"""

import copy
import time

import numpy as np

from matsim.sio import atoms_to_spec, spec_to_atoms


def _same(v, target):
    if v is None:
        return False
    if v["cls"] != target["cls"]:
        return False
    if target.get("exc") and v.get("exc") != target.get("exc"):
        return False
    return True


def _drop_ops(spec, keep):
    """Keep the ops whose index is in *keep* (a sorted list); drops ops whose
    'ref' target is gone; remaps refs. Returns a new spec or None."""
    keep = sorted(keep)
    m = {old: new for new, old in enumerate(keep)}
    ops = []
    for old in keep:
        op = copy.deepcopy(spec["ops"][old])
        if "ref" in op:
            if op["ref"] not in m:
                return None
            op["ref"] = m[op["ref"]]
        ops.append(op)
    s = copy.deepcopy(spec)
    s["ops"] = ops
    used = set()
    for op in ops:
        used.update(op.get(k) for k in ("s", "source", "src", "dst"))
    s["structures"] = {k: v for k, v in s["structures"].items() if k in used}
    return s


def minimise(spec, violation, runner, budget_s=60.0, max_runs=200):
    """runner(spec) -> violation dict or None.  Returns (spec, violation, n_runs)."""
    t0 = time.time()
    runs = [0]
    best = copy.deepcopy(spec)
    best_v = violation

    def attempt(cand):
        if cand is None:
            return False
        if time.time() - t0 > budget_s or runs[0] >= max_runs:
            return False
        runs[0] += 1
        try:
            v = runner(cand)
        except Exception:
            return False
        nonlocal best, best_v
        if _same(v, violation):
            best = cand
            best_v = v
            return True
        return False

    # 0. truncate after the violating op
    k = violation.get("op_index")
    if k is not None and k + 1 < len(best["ops"]):
        attempt(_drop_ops(best, list(range(k + 1))))

    # 1. ddmin over ops
    n = 2
    while len(best["ops"]) >= 2 and time.time() - t0 < budget_s and runs[0] < max_runs:
        idx = list(range(len(best["ops"])))
        chunk = max(1, len(idx) // n)
        reduced = False
        for start in range(0, len(idx), chunk):
            keep = idx[:start] + idx[start + chunk :]
            if not keep:
                continue
            if attempt(_drop_ops(best, keep)):
                n = max(n - 1, 2)
                reduced = True
                break
        if not reduced:
            if chunk == 1:
                break
            n = min(n * 2, len(idx))

    # 2. simplify individual ops
    for i in range(len(best["ops"])):
        op = best["ops"][i]
        if "fault" in op:
            c = copy.deepcopy(best)
            del c["ops"][i]["fault"]
            attempt(c)
        op = best["ops"][i]
        if op.get("inst") not in (None, "fresh") and op["op"] in ("CLUSTER", "CLUSTER_BAD"):
            c = copy.deepcopy(best)
            c["ops"][i]["inst"] = "fresh"
            attempt(c)
        op = best["ops"][i]
        if op.get("params"):
            for key in list(op["params"].keys()):
                c = copy.deepcopy(best)
                del c["ops"][i]["params"][key]
                attempt(c)
        op = best["ops"][i]
        ss = op.get("seedspec")
        if ss and ss["kind"] == "script":
            while len(best["ops"][i]["seedspec"].get("prio", [])) > 0:
                c = copy.deepcopy(best)
                c["ops"][i]["seedspec"]["prio"] = c["ops"][i]["seedspec"]["prio"][:-1]
                if not attempt(c):
                    break
            if best["ops"][i]["seedspec"].get("then") != "low":
                c = copy.deepcopy(best)
                c["ops"][i]["seedspec"]["then"] = "low"
                attempt(c)
        if "xref" in best["ops"][i] and violation["cls"] != "NONDET_HASHSEED":
            c = copy.deepcopy(best)
            del c["ops"][i]["xref"]
            attempt(c)

    # 3. delete atoms (only for free-form structures; never for recipe families
    #    whose oracle depends on the recipe)
    if violation["property"] in ("C01", "C13", "C17"):
        for sid in list(best["structures"].keys()):
            _shrink_atoms(best, sid, attempt, lambda: best, t0, budget_s)
    return best, best_v, runs[0]


def _shrink_atoms(spec0, sid, attempt, get_best, t0, budget_s):
    chunk = None
    while time.time() - t0 < budget_s:
        best = get_best()
        st = best["structures"].get(sid)
        if st is None or st["n"] <= 1:
            return
        n = st["n"]
        if chunk is None:
            chunk = max(1, n // 2)
        chunk = min(chunk, n - 1)
        progressed = False
        for start in range(0, n, chunk):
            rm = set(range(start, min(n, start + chunk)))
            if len(rm) >= n:
                continue
            cand = _remove_atoms(best, sid, rm)
            if cand is not None and attempt(cand):
                progressed = True
                break
            if time.time() - t0 > budget_s:
                return
        if not progressed:
            if chunk == 1:
                return
            chunk = max(1, chunk // 2)


def _remove_atoms(spec, sid, rm):
    c = copy.deepcopy(spec)
    st = c["structures"][sid]
    a = spec_to_atoms(st)
    keep = [i for i in range(len(a)) if i not in rm]
    m = {old: new for new, old in enumerate(keep)}
    b = a[keep]
    meta = dict(st.get("meta") or {})
    meta["minimised_from_n"] = meta.get("minimised_from_n", st["n"])
    meta["n"] = len(b)
    c["structures"][sid] = atoms_to_spec(b, meta)
    for op in c["ops"]:
        if op.get("s") != sid:
            continue
        ss = op.get("seedspec")
        if ss and ss["kind"] == "script":
            ss["prio"] = [m[x] for x in ss.get("prio", []) if x in m]
        r = op.get("params", {}).get("radii")
        if isinstance(r, dict):
            r["custom"] = [r["custom"][i] for i in keep]
        if "fault" in op and "resolved" in op["fault"]:
            del op["fault"]["resolved"]
    return c
