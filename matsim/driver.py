"""Driver: fans worlds out to forked workers, survives worker death, matches
violations against the committed known findings, minimises and writes replay
files, writes the evidence file.

Exit status: 0 = held on everything explored (possibly KNOWN-FINDING lines);
1 = at least one VIOLATION line; 2 = harness error / timeout (never 0, never a
VIOLATION line).
"""

import faulthandler
import hashlib
import json
import multiprocessing as mp
import os
import shutil
import subprocess
import sys
import time
import traceback
from collections import Counter

VERIF = os.path.dirname(os.path.dirname(os.path.abspath(__file__)))
EVIDENCE_DIR = os.path.join(VERIF, "evidence")
REPLAY_DIR = os.path.join(VERIF, "replays")
KNOWN_FILE = os.path.join(VERIF, "known_findings.json")

# worlds per tier (a wall-clock budget is only a safety net)
PLAN = {
    "quick": {
        "C01": dict(worlds=900, wall=170),
        "C13": dict(worlds=1200, wall=170),
        "C17": dict(worlds=800, wall=170),
        "C02": dict(worlds=260, wall=170),
        "C03": dict(worlds=220, wall=170),
        "C04": dict(worlds=480, wall=170),
    },
    "thorough": {
        "C01": dict(worlds=9000, wall=1700),
        "C13": dict(worlds=14000, wall=1700),
        "C17": dict(worlds=9000, wall=1700),
        "C02": dict(worlds=2400, wall=1700),
        "C03": dict(worlds=2000, wall=1700),
        "C04": dict(worlds=2000, wall=1700),
    },
}

WORLD_TIMEOUT = {"quick": 240, "thorough": 900}
WORKER_AS_LIMIT = 8 * 2**30


# ---------------------------------------------------------------------------
# worker


def _worker(wid, prop, root, tier, counter, n_worlds, deadline, outq, workdir, use_helper, world_list):
    import warnings

    warnings.simplefilter("ignore")
    warnings.showwarning = lambda *a, **k: None
    from matsim.ops import HarnessError, run_world
    from matsim.worlds import gen_world

    try:
        import resource

        # a runaway allocation must fail inside the worker (MemoryError), not take the sandbox down
        resource.setrlimit(resource.RLIMIT_AS, (WORKER_AS_LIMIT, WORKER_AS_LIMIT))
    except Exception:
        pass
    fh = open(os.path.join(workdir, "fh.%d" % wid), "w")
    faulthandler.enable(file=fh)
    jfd = os.open(os.path.join(workdir, "journal.%d" % wid), os.O_WRONLY | os.O_CREAT | os.O_TRUNC)

    def journal(spec, i, phase):
        rec = json.dumps({"world": spec.get("world"), "op": i, "phase": phase}).encode()
        os.pwrite(jfd, rec + b" " * (120 - len(rec)) + b"\n", 0)

    helper = None
    try:
        while True:
            with counter.get_lock():
                k = counter.value
                counter.value += 1
            if k >= n_worlds or time.time() > deadline:
                break
            w = world_list[k] if world_list is not None else k
            faulthandler.dump_traceback_later(WORLD_TIMEOUT[tier], exit=True, file=fh)
            try:
                spec = gen_world(prop, root, w, tier)
                if use_helper and helper is None and any(op.get("xref") for op in spec["ops"]):
                    from matsim.helper import Helper

                    helper = Helper(repo=os.environ.get("MATSIM_REPO"))
                t0 = time.time()
                summ = run_world(spec, journal=journal, helper=helper)
                summ["wall"] = time.time() - t0
                summ["config"] = spec.get("config")
                summ["recipe_class"] = recipe_class((spec["structures"].get("s0") or {}).get("meta"))
                if summ["violation"] is None:
                    summ.pop("spec", None)
                outq.put(summ)
            except HarnessError as e:
                outq.put({"world": w, "harness_error": "HarnessError: %s" % e})
            except BaseException as e:  # noqa
                outq.put({"world": w, "harness_error": traceback.format_exc()[-1500:]})
            finally:
                faulthandler.cancel_dump_traceback_later()
    finally:
        if helper is not None:
            helper.close()
        outq.put({"done": wid})


def recipe_class(meta):
    """Coarse class of a generated crystal / stack / monolayer recipe."""
    if not meta or meta.get("family") not in ("crystal", "stack", "monolayer"):
        return None
    if meta["family"] == "crystal":
        return "crystal:%s:%s:%s:L%s:%s" % (meta["material"], meta["kind"], meta["miller"], meta["layers"], "T" if meta["pbcz"] else "F")
    if meta["family"] == "stack":
        return "stack:%s%s:%s/%s" % (meta["lattice"], meta["facet"], meta["bottom"], meta["top"])
    return "mono:%s" % meta["material"]


# ---------------------------------------------------------------------------
# known findings


def load_known(prop):
    if not os.path.exists(KNOWN_FILE):
        return []
    with open(KNOWN_FILE) as f:
        data = json.load(f)
    return [e for e in data.get("findings", []) if e.get("property") == prop]


def _flat(v):
    d = {k: v.get(k) for k in ("cls", "exc", "site", "op", "struct", "radii", "dropped", "merged", "multi_draw")}
    for k, val in (v.get("recipe") or {}).items():
        d["recipe." + k] = val
    return d


def matches_known(v, known):
    f = _flat(v)
    for e in known:
        if e.get("status") != "known":
            continue
        if all((f.get(k) in val) if isinstance(val, list) else (f.get(k) == val) for k, val in e.get("match", {}).items()):
            return e
    return None


# ---------------------------------------------------------------------------
# replay in a fresh interpreter


def replay_subprocess(path, timeout=600):
    """Runs `matsim_main.py <prop> --replay path --raw` in a fresh interpreter.
    Returns (violation dict or None, returncode)."""
    env = dict(os.environ)
    cmd = [sys.executable, os.path.join(VERIF, "matsim_main.py"), "replay", "--replay", path, "--raw"]
    try:
        p = subprocess.run(cmd, capture_output=True, text=True, timeout=timeout, env=env)
    except subprocess.TimeoutExpired:
        return {"cls": "TIMEOUT"}, 2
    v = None
    for line in p.stdout.splitlines():
        if line.startswith("RAW "):
            v = json.loads(line[4:])
    if p.returncode < 0 or p.returncode in (139, 137, 134):
        return {"cls": "CRASH", "signal": p.returncode}, p.returncode
    return (v or {}).get("violation"), p.returncode


def run_spec_inprocess(spec):
    from matsim.ops import run_world

    s = run_world(spec)
    return s["violation"], s


def run_spec_subprocess(spec, workdir, timeout=300):
    path = os.path.join(workdir, "cand-%d.json" % os.getpid())
    with open(path, "w") as f:
        json.dump({"spec": spec}, f)
    v, rc = replay_subprocess(path, timeout=timeout)
    return v


# ---------------------------------------------------------------------------


def _tree_fingerprint():
    import matid
    import matid.ext

    root = os.path.dirname(os.path.abspath(matid.__file__))
    out = {"matid_dir": root}
    h = hashlib.sha256()
    for dp, dn, fn in sorted(os.walk(root)):
        dn.sort()
        for f in sorted(fn):
            if f.endswith(".py") and "symmetry_data" not in f:
                with open(os.path.join(dp, f), "rb") as fh_:
                    h.update(f.encode())
                    h.update(fh_.read())
    out["py_sha256"] = h.hexdigest()[:16]
    with open(matid.ext.__file__, "rb") as f:
        out["ext_so_sha256"] = hashlib.sha256(f.read()).hexdigest()[:16]
    cpp = hashlib.sha256()
    extdir = os.path.join(root, "ext")
    if os.path.isdir(extdir):
        for f in sorted(os.listdir(extdir)):
            with open(os.path.join(extdir, f), "rb") as fh_:
                cpp.update(fh_.read())
    out["ext_cpp_sha256"] = cpp.hexdigest()[:16]
    return out


def write_replay(prop, root, world, spec, violation, tag=""):
    os.makedirs(REPLAY_DIR, exist_ok=True)
    name = "%s-%s-%s%s.json" % (prop, root, world, tag)
    path = os.path.join(REPLAY_DIR, name)
    with open(path, "w") as f:
        json.dump({"property": prop, "seed": root, "world": world, "violation": violation, "spec": spec}, f, indent=0)
    return path


def run_check(prop, tier, root, workers=None, worlds=None, wall=None, world_list=None, quiet=False, use_known=True, minimise_budget=None, evidence=True, digests_out=None, survey=None):
    t_start = time.time()
    plan = dict(PLAN[tier][prop])
    if worlds is not None:
        plan["worlds"] = worlds
    if wall is not None:
        plan["wall"] = wall
    if world_list is not None:
        plan["worlds"] = len(world_list)
    workers = workers or min(16, os.cpu_count() or 1)
    workdir = os.path.join(VERIF, ".work", "%s-%s-%d" % (prop, tier, os.getpid()))
    os.makedirs(workdir, exist_ok=True)
    os.makedirs(EVIDENCE_DIR, exist_ok=True)
    log = (lambda *a: None) if quiet else (lambda *a: print(*a, flush=True))
    log("matsim check property=%s tier=%s VERIF_SEED=%d worlds=%d workers=%d" % (prop, tier, root, plan["worlds"], workers))

    known = load_known(prop) if use_known else []
    exit_code = 0
    violations_out = []
    known_lines = []

    # 1. replay the witnesses of the known findings
    from concurrent.futures import ThreadPoolExecutor

    kn = [e for e in known if e.get("status") == "known"]
    with ThreadPoolExecutor(max_workers=8) as tp:
        replays = list(tp.map(lambda e: replay_subprocess(os.path.join(VERIF, e["witness"])), kn))
    for e, (v, rc) in zip(kn, replays):
        if v is not None and matches_known(v, [e]):
            line = "KNOWN-FINDING: property=%s %s" % (prop, e["description"])
            known_lines.append(line)
            print(line, flush=True)
        else:
            log("note: known finding %s no longer reproduces from its witness" % e["id"])

    # 2. the search (heavy imports happen once, before forking)
    import sklearn.cluster  # noqa: F401
    import matid.classification.classifier  # noqa: F401
    import matid.clustering.sbc  # noqa: F401
    import matid.symmetry.symmetryanalyzer  # noqa: F401
    import matsim.ops  # noqa: F401
    import matsim.worlds  # noqa: F401

    matsim.ops._pristine_module_state()  # captured before any MatID code has run

    ctx = mp.get_context("fork")
    counter = ctx.Value("i", 0)
    outq = ctx.Queue()
    deadline = time.time() + plan["wall"]
    use_helper = True
    procs = {}
    next_wid = [0]

    def spawn():
        wid = next_wid[0]
        next_wid[0] += 1
        p = ctx.Process(
            target=_worker,
            args=(wid, prop, root, tier, counter, plan["worlds"], deadline, outq, workdir, use_helper, world_list),
        )
        p.daemon = True
        p.start()
        procs[wid] = p

    for _ in range(workers):
        spawn()

    agg = dict(
        worlds=0, ops=0, stats=Counter(), probes=Counter(), fault_fired=Counter(), nontrivial=set(), schedules=set(),
        samples=[], logical_time=0, line_events=0, wall_worlds=0.0, digests={}, harness_errors=[], known_hits=Counter(),
        fault_worlds=0, faultfree_worlds=0, discarded=Counter(), op_prefixes=set(), recipes=Counter(),
    )
    raw_violations = []
    done = set()
    crashed_worlds = []
    hard_deadline = time.time() + plan["wall"] + WORLD_TIMEOUT[tier] + 60
    while len(done) < len(procs):
        try:
            msg = outq.get(timeout=1.0)
        except Exception:
            msg = None
        if msg is not None:
            if "done" in msg:
                done.add(msg["done"])
            elif "harness_error" in msg:
                agg["harness_errors"].append(msg)
            else:
                _aggregate(agg, msg)
                if msg["violation"] is not None:
                    raw_violations.append(msg)
            continue
        # liveness
        for wid, p in list(procs.items()):
            if wid in done:
                continue
            if not p.is_alive():
                p.join(0.1)
                if wid in done:
                    continue
                done.add(wid)
                j = _read_journal(workdir, wid)
                rc = p.exitcode
                if rc is not None and rc < 0:
                    crashed_worlds.append((j, rc))
                    log("worker %d died with signal %d in %s" % (wid, -rc, j))
                else:
                    agg["harness_errors"].append({"world": (j or {}).get("world"), "harness_error": "worker exit code %s (watchdog/timeouts) at %s" % (rc, j)})
                if time.time() < deadline and counter.value < plan["worlds"] and next_wid[0] < 4 * workers:
                    spawn()
        if time.time() > hard_deadline:
            agg["harness_errors"].append({"harness_error": "driver hard deadline exceeded"})
            for p in procs.values():
                if p.is_alive():
                    p.terminate()
            break
    for p in procs.values():
        p.join(1)

    # 3. process deaths -> CRASH violations
    from matsim.worlds import gen_world

    for j, rc in crashed_worlds:
        if not j:
            agg["harness_errors"].append({"harness_error": "worker died (signal %d) without journal" % -rc})
            continue
        spec = gen_world(prop, root, j["world"], tier)
        opi = min(j["op"], len(spec["ops"]) - 1)
        op = spec["ops"][opi] if spec["ops"] else {}
        sid = op.get("s")
        st = spec["structures"].get(sid, {}) if sid else {}
        from matsim.sio import struct_digest

        from matsim.ops import in_scope

        if not in_scope(prop, "CRASH", op.get("op")):
            agg["probes"]["out_of_scope:CRASH"] += 1
            continue
        v = dict(property=prop, cls="CRASH", op_index=opi, op=op.get("op"), detail="process died with signal %d during op %d (%s phase)" % (-rc, opi, j.get("phase")),
                 signal=-rc, recipe=st.get("meta"), struct=struct_digest(st) if st else None)
        raw_violations.append({"world": j["world"], "violation": v, "spec": spec})

    if survey:
        with open(survey, "a") as f:
            for msg in sorted(raw_violations, key=lambda m: m["world"]):
                v = msg["violation"]
                f.write(json.dumps({"seed": root, "tier": tier, "world": msg["world"], "violation": v, "known": bool(matches_known(v, known)),
                                    "seedspec": (msg["spec"]["ops"][v["op_index"]].get("seedspec") if v.get("op_index") is not None and v["op_index"] < len(msg["spec"]["ops"]) else None)}, default=str) + "\n")
            f.write(json.dumps({"seed": root, "tier": tier, "summary": True, "worlds": agg["worlds"], "ops": agg["ops"], "recipes": dict(agg["recipes"]), "violations": len(raw_violations)}) + "\n")
        raw_violations = []

    # 4. classify / minimise / report
    reported_keys = set()
    for msg in sorted(raw_violations, key=lambda m: m["world"]):
        v = msg["violation"]
        e = matches_known(v, known)
        if e is not None:
            agg["known_hits"][e["id"]] += 1
            continue
        key = (v["cls"], v.get("exc"), v.get("site"))
        if key in reported_keys and len(violations_out) >= 3:
            continue
        reported_keys.add(key)
        spec = msg["spec"]
        budget = minimise_budget if minimise_budget is not None else (45 if tier == "quick" else 180)
        if len(violations_out) >= 2:
            budget = 0
        path, vmin, info = minimise_and_write(prop, root, msg["world"], spec, v, workdir, budget)
        violations_out.append(dict(world=msg["world"], violation=vmin, replay=os.path.relpath(path, VERIF), minimise=info))
        print("VIOLATION property=%s replay=%s" % (prop, path), flush=True)
        log("  class=%s world=%s op=%s: %s" % (vmin["cls"], msg["world"], vmin.get("op_index"), vmin.get("detail")))
        log("  minimised: %s" % info)
        exit_code = 1

    if agg["harness_errors"]:
        if exit_code == 0:
            exit_code = 2
        for h in agg["harness_errors"][:5]:
            print("HARNESS-ERROR world=%s %s" % (h.get("world"), str(h.get("harness_error"))[-800:]), flush=True)
    if agg["worlds"] == 0 and exit_code == 0:
        exit_code = 2
        print("HARNESS-ERROR no world was executed", flush=True)

    wall = time.time() - t_start
    if digests_out:
        with open(digests_out, "w") as f:
            json.dump({str(k): v for k, v in sorted(agg["digests"].items())}, f)
    if evidence:
        write_evidence(prop, tier, root, agg, violations_out, known_lines, wall, plan, workers)
    log(
        "done: worlds=%d ops=%d distinct_nontrivial=%d violations=%d known_hits=%s harness_errors=%d wall=%.1fs exit=%d"
        % (agg["worlds"], agg["ops"], len(agg["nontrivial"]), len(violations_out), dict(agg["known_hits"]), len(agg["harness_errors"]), wall, exit_code)
    )
    shutil.rmtree(workdir, ignore_errors=True)
    return exit_code


def _read_journal(workdir, wid):
    try:
        with open(os.path.join(workdir, "journal.%d" % wid)) as f:
            return json.loads(f.readline())
    except Exception:
        return None


def _aggregate(agg, s):
    agg["worlds"] += 1
    agg["ops"] += s["n_ops"]
    agg["stats"].update(s["stats"])
    agg["probes"].update(s["probes"])
    agg["fault_fired"].update(s["fault_fired"])
    agg["nontrivial"].update(s["nontrivial"])
    agg["schedules"].update(s["schedules"])
    agg["op_prefixes"].add(s.get("interleaving"))
    agg["logical_time"] += s["logical_time"]
    agg["line_events"] += s["line_events"]
    agg["wall_worlds"] += s.get("wall", 0)
    agg["digests"][s["world"]] = s["digest"]
    cfg = s.get("config") or {}
    if cfg.get("faults"):
        agg["fault_worlds"] += 1
    else:
        agg["faultfree_worlds"] += 1
    for k, v in (cfg.get("discarded") or {}).items():
        agg["discarded"][k] += v
    if s.get("recipe_class"):
        agg["recipes"][s["recipe_class"]] += 1
    if cfg.get("exhaustive_first"):
        agg["stats"]["exhaustive_first_worlds"] += 1
    if len(agg["samples"]) < 4:
        agg["samples"].extend(s.get("samples", [])[: 4 - len(agg["samples"])])


def minimise_and_write(prop, root, world, spec, v, workdir, budget):
    from matsim.minimise import minimise

    info = {"ops_before": len(spec["ops"]), "atoms_before": {k: s["n"] for k, s in spec["structures"].items()}}
    vmin = v
    smin = spec
    if budget > 0:
        if v["cls"] == "CRASH":
            runner = lambda s: run_spec_subprocess(s, workdir)  # noqa: E731
            budget = min(budget, 120)
        else:
            runner = lambda s: run_spec_inprocess(s)[0]  # noqa: E731
        try:
            smin, vmin, nruns = minimise(spec, v, runner, budget_s=budget)
            info["runs"] = nruns
        except Exception as e:
            info["minimise_error"] = repr(e)
    if "property" not in vmin:
        # violation reconstructed from a child process exit status (CRASH)
        vmin = dict(v, **{k: x for k, x in vmin.items() if x is not None})
        vmin["op_index"] = min(v.get("op_index") or 0, max(0, len(smin["ops"]) - 1))
        vmin["detail"] = "process died (exit status %s) while replaying the minimised world" % vmin.get("signal")
    info["ops_after"] = len(smin["ops"])
    info["atoms_after"] = {k: s["n"] for k, s in smin["structures"].items()}
    path = write_replay(prop, root, world, smin, vmin)
    # the minimised file must fail the same way in a fresh interpreter
    v2, rc = replay_subprocess(path)
    info["replay_confirmed"] = bool(v2 is not None and v2.get("cls") == vmin.get("cls"))
    return path, vmin, info


def write_evidence(prop, tier, root, agg, violations_out, known_lines, wall, plan, workers):
    fp = _tree_fingerprint()
    hours = max(wall, 1e-9) / 3600.0
    wd = hashlib.sha256(json.dumps(sorted(agg["digests"].items())).encode()).hexdigest()[:16]
    cov = {
        "evaluations": int(agg["ops"]),
        "distinct_nontrivial": int(len(agg["nontrivial"])),
        "rule": (
            "cases = operations executed under simulation (public-API calls issued by 1-3 logical clients on long-lived "
            "objects, generated from named PRNG streams of VERIF_SEED). A case is counted in distinct_nontrivial once per "
            "distinct (structure digest, parameters, seed-atom pick list, history-context digest, fault descriptor) tuple "
            "AND only if it did real work: returned >=1 cluster / a non-trivial class / a checked dimensionality, had an "
            "injected fault actually fire, or ran on an instance with prior history."
        ),
        "samples": agg["samples"][:4] or [{"note": "no untainted sample recorded"}],
        "worlds": agg["worlds"],
        "worlds_planned": plan["worlds"],
        "worlds_fault_injecting": agg["fault_worlds"],
        "worlds_fault_free": agg["faultfree_worlds"],
        "worlds_per_hour": round(agg["worlds"] / hours),
        "operations_per_hour": round(agg["ops"] / hours),
        "simulated_time": {
            "unit": "logical clock: seam crossings (calls through the shimmed dependency boundaries); matid line events are counted only in operations with an armed crash and their dry runs",
            "seam_crossings": int(agg["logical_time"]),
            "matid_line_events": int(agg["line_events"]),
        },
        "op_counts": {k[3:]: v for k, v in sorted(agg["stats"].items()) if k.startswith("op_")},
        "cross_interpreter_references": int(agg["stats"].get("xref", 0)),
        "faults_fired": {k: v for k, v in sorted(agg["fault_fired"].items())},
        "distinct_seed_atom_schedules": len(agg["schedules"]),
        "distinct_operation_interleavings": len(agg["op_prefixes"]),
        "probes": dict(sorted(agg["probes"].items())),
        "discarded_by_precondition": dict(agg["discarded"]),
        "known_findings_replayed": known_lines,
        "known_finding_hits_in_search": dict(agg["known_hits"]),
        "harness_errors": len(agg["harness_errors"]),
        "world_digest": wd,
        "components": {
            "real": ["matid (python, /repo working tree)", "matid.ext (prebuilt .so, see fingerprint)", "ase", "spglib", "scikit-learn", "numpy", "networkx", "scipy"],
            "stubs": ["scripted numpy Generator passed as seed= (SchedGen)", "counting/faulting shims on module attributes", "sys.settrace crash injector"],
        },
        "tree": fp,
        "workers": workers,
        "violations_detail": violations_out[:5],
    }
    ev = {
        "property_id": prop,
        "tier": tier,
        "seed": int(root),
        "level": "exploration",
        "coverage": cov,
        "assumptions": [
            "seeded search over schedules, histories, fault points and structures: a clean batch is evidence, not proof",
            "the C++ extension cannot be rebuilt in this sandbox (no pybind11 headers): the prebuilt matid/ext*.so is used; changes to matid/ext/*.cpp are invisible",
            "no threads: MatID promises no thread safety; logical clients are interleaved at operation granularity on one thread",
            "oracle radii and distances come from ase.data / ase.geometry; C13 and C17 reference evaluations call matid.geometry.get_dimensionality because the statements name it",
        ],
        "wall_s": round(wall, 2),
        "violations": len(violations_out),
    }
    with open(os.path.join(EVIDENCE_DIR, "%s.json" % prop), "w") as f:
        json.dump(ev, f, indent=1, default=str)
