"""Determinism self-test of the simulator: the same VERIF_SEED is run twice in
fresh interpreters -- PYTHONHASHSEED 0 with 1 worker, and another hash seed with
16 workers -- and the per-world event-log digests must be identical.
"""

import json
import os
import subprocess
import sys
import tempfile

VERIF = os.path.dirname(os.path.dirname(os.path.abspath(__file__)))
PROPS = ["C01", "C13", "C17", "C02", "C03", "C04"]
WORLDS = {"C01": 24, "C13": 24, "C17": 24, "C02": 6, "C03": 6, "C04": 6}


def _run(prop, seed, hashseed, workers, out):
    env = dict(os.environ)
    env["PYTHONHASHSEED"] = str(hashseed)
    env["VERIF_SEED"] = str(seed)
    cmd = [sys.executable, os.path.join(VERIF, "matsim_main.py"), prop, "--worlds", str(WORLDS[prop]), "--workers", str(workers),
           "--no-evidence", "--no-known", "--quiet", "--digests-out", out]
    p = subprocess.run(cmd, env=env, capture_output=True, text=True, timeout=1800)
    return p.returncode, p.stdout[-500:]


def main(n_seeds=6, props=None):
    bad = 0
    total = 0
    tmp = tempfile.mkdtemp(prefix="matsim-selftest-", dir=os.path.join(VERIF, ".work") if os.path.isdir(os.path.join(VERIF, ".work")) else None)
    for prop in props or PROPS:
        for seed in range(1000, 1000 + n_seeds):
            a = os.path.join(tmp, "a.json")
            b = os.path.join(tmp, "b.json")
            rc1, o1 = _run(prop, seed, 0, 1 if WORLDS[prop] <= 6 else 4, a)
            rc2, o2 = _run(prop, seed, 31337 + seed, 16, b)
            da = json.load(open(a))
            db = json.load(open(b))
            total += len(da)
            if da != db or rc1 != rc2:
                bad += 1
                diff = [k for k in sorted(set(da) | set(db)) if da.get(k) != db.get(k)]
                print("NONDETERMINISTIC property=%s seed=%d worlds=%s rc=%s/%s" % (prop, seed, diff[:10], rc1, rc2), flush=True)
            else:
                print("deterministic property=%s seed=%d worlds=%d rc=%d" % (prop, seed, len(da), rc1), flush=True)
    print("selftest: %d world digests compared across hash seeds / worker counts, %d mismatching runs" % (total, bad))
    return 0 if bad == 0 else 2
