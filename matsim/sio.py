"""Structure (de)serialisation, snapshots and digests.

Structures are stored *explicitly* in world specs and replay files (numbers,
float64 positions / cell as hex, pbc, optional extras) -- never as generator
recipes -- so a replay depends on the file and the tree only.
"""

import hashlib
import json

import numpy as np
from ase import Atoms
from ase.constraints import FixAtoms


def fhex(a) -> str:
    return np.ascontiguousarray(np.asarray(a, dtype="<f8")).tobytes().hex()


def unhex(s, shape):
    return np.frombuffer(bytes.fromhex(s), dtype="<f8").reshape(shape).copy()


def atoms_to_spec(a: Atoms, meta=None) -> dict:
    d = {
        "n": len(a),
        "numbers": [int(z) for z in a.numbers],
        "pos": fhex(a.positions),
        "cell": fhex(a.cell.array),
        "pbc": [bool(x) for x in a.pbc],
    }
    if "tags" in a.arrays:
        d["tags"] = [int(t) for t in a.arrays["tags"]]
    info = {str(k): v for k, v in a.info.items() if isinstance(v, (str, int, float, bool))}
    if info:
        d["info"] = info
    if a.constraints:
        idx = []
        for c in a.constraints:
            if isinstance(c, FixAtoms):
                idx.extend(int(i) for i in c.index)
        d["fix"] = idx
    if meta:
        d["meta"] = meta
    return d


def spec_to_atoms(d: dict) -> Atoms:
    n = d["n"]
    a = Atoms(
        numbers=d["numbers"],
        positions=unhex(d["pos"], (n, 3)),
        cell=unhex(d["cell"], (3, 3)),
        pbc=d["pbc"],
    )
    if "tags" in d:
        a.set_tags(d["tags"])
    if "info" in d:
        a.info.update(d["info"])
    if d.get("fix"):
        a.set_constraint(FixAtoms(indices=d["fix"]))
    return a


def struct_digest(d: dict) -> str:
    core = {k: d[k] for k in ("numbers", "pos", "cell", "pbc")}
    return hashlib.sha256(json.dumps(core, sort_keys=True).encode()).hexdigest()[:16]


class Snapshot:
    """Everything a caller could observe about an Atoms object."""

    def __init__(self, a: Atoms):
        self.arrays = {k: np.array(v, copy=True) for k, v in a.arrays.items()}
        self.cell = np.array(a.cell.array, copy=True)
        self.pbc = np.array(a.pbc, copy=True)
        self.celldisp = np.array(a.get_celldisp(), copy=True)
        self.info = json.dumps(a.info, sort_keys=True, default=repr)
        self.constraints = repr(a.constraints)
        self.calc = a.calc

    def diff(self, a: Atoms):
        """Returns None if *a* still equals the snapshot, else a short reason."""
        if set(a.arrays.keys()) != set(self.arrays.keys()):
            return "arrays keys %s -> %s" % (sorted(self.arrays), sorted(a.arrays))
        for k, v in self.arrays.items():
            w = a.arrays[k]
            if w.shape != v.shape or w.dtype != v.dtype:
                return "array %s shape/dtype changed" % k
            if not _bitwise_equal(v, w):
                return "array %s changed" % k
        if not _bitwise_equal(self.cell, a.cell.array):
            return "cell changed"
        if not np.array_equal(self.pbc, a.pbc):
            return "pbc changed"
        if not _bitwise_equal(self.celldisp, a.get_celldisp()):
            return "celldisp changed"
        if self.info != json.dumps(a.info, sort_keys=True, default=repr):
            return "info changed"
        if self.constraints != repr(a.constraints):
            return "constraints changed"
        if a.calc is not self.calc:
            return "calc changed"
        return None


def _bitwise_equal(v, w) -> bool:
    v = np.ascontiguousarray(v)
    w = np.ascontiguousarray(w)
    if v.shape != w.shape:
        return False
    if v.dtype.kind == "f":
        return v.tobytes() == np.ascontiguousarray(w, dtype=v.dtype).tobytes()
    return bool(np.array_equal(v, w))


def atoms_digest(a) -> dict:
    """JSON-able, bitwise digest of an Atoms (used for prototype cells)."""
    if a is None:
        return None
    return {
        "numbers": [int(z) for z in a.get_atomic_numbers()],
        "pos": fhex(a.get_positions()),
        "cell": fhex(a.get_cell().array if hasattr(a.get_cell(), "array") else a.get_cell()),
        "pbc": [bool(x) for x in a.get_pbc()],
    }


def sha(obj) -> str:
    return hashlib.sha256(json.dumps(obj, sort_keys=True, default=repr).encode()).hexdigest()[:16]


def digests_close(d1, d2, tol=1e-9):
    """Compare two digests produced by different interpreters: discrete fields
    exactly, hex-encoded float arrays within *tol*.  Returns None or a reason."""
    if type(d1) is not type(d2):
        return "type %s vs %s" % (type(d1).__name__, type(d2).__name__)
    if isinstance(d1, dict):
        if set(d1) != set(d2):
            return "keys differ"
        for k in d1:
            if k in ("pos", "cell") and isinstance(d1[k], str):
                if d1[k] == d2[k]:
                    continue
                a = np.frombuffer(bytes.fromhex(d1[k]), dtype="<f8")
                b = np.frombuffer(bytes.fromhex(d2[k]), dtype="<f8")
                if a.shape != b.shape or not np.allclose(a, b, rtol=0, atol=tol):
                    return "float field %s differs" % k
            else:
                r = digests_close(d1[k], d2[k], tol)
                if r:
                    return "%s: %s" % (k, r)
        return None
    if isinstance(d1, list):
        if len(d1) != len(d2):
            return "length %d vs %d" % (len(d1), len(d2))
        for i, (x, y) in enumerate(zip(d1, d2)):
            r = digests_close(x, y, tol)
            if r:
                return "[%d]: %s" % (i, r)
        return None
    if isinstance(d1, float):
        return None if abs(d1 - d2) <= tol else "float differs"
    return None if d1 == d2 else "%r vs %r" % (d1, d2)
