#!/bin/bash
# sensitivity/seeded.sh <dir with patch.diff + demo.py> <property> [worlds] [extra check args]
# 1. fresh scratch worktree of /repo HEAD (outside /repo and /verif), with the prebuilt extension copied in
# 2. demo.py must pass without the patch; apply patch; demo must fail; the existing suite must still pass
# 3. run the registered quick check against the patched scratch tree (MATSIM_REPO), expect exit 1
# 4. remove the worktree
D=$(readlink -f "$1"); P=$2; W=${3:-}; shift; shift; shift
WT=$(mktemp -d /tmp/seedwt-XXXXXX); rmdir $WT
git -C /repo worktree add -q -f $WT HEAD || exit 3
cp /repo/matid/ext.cpython-312-x86_64-linux-gnu.so $WT/matid/
cp $D/demo.py $WT/demo.py
cd $WT
echo "== demo without patch"; PYTHONPATH=$WT timeout 600 /venv/bin/python demo.py > $WT/demo0.log 2>&1; echo "rc=$? $(grep -v conda $WT/demo0.log | tail -1)"
git apply $D/patch.diff || { echo "patch does not apply"; git -C /repo worktree remove --force $WT; exit 3; }
echo "== demo with patch"; PYTHONPATH=$WT timeout 600 /venv/bin/python demo.py > $WT/demo1.log 2>&1; echo "rc=$? $(grep -v conda $WT/demo1.log | tail -1)"
echo "== test suite with patch"; PYTHONPATH=$WT timeout 1200 /venv/bin/python -m pytest -q -p no:cacheprovider -n 8 --timeout=900 tests 2>&1 | tail -1
echo "== check $P against patched tree"
cd /verif
MATSIM_REPO=$WT ./check $P --no-evidence --replay-dir $WT/replays ${W:+--worlds $W} "$@" 2>&1 | grep -v conda | grep -v "^  minimised" | head -12
echo "check rc=${PIPESTATUS[0]}"
git -C /repo worktree remove --force $WT
