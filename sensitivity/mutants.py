"""Hand-written sensitivity set (DESIGN.md section 4): small realistic breaks,
applied one at a time to a scratch copy of /repo/matid (never to /repo), each
of which must be caught by the quick check of its property.

    /venv/bin/python sensitivity/mutants.py [ids...]       (cwd = /verif)

For every mutant: copy /repo/matid to a fresh temp dir, apply the textual
replacement, run `MATSIM_REPO=<tmp> ./check <prop> --no-evidence
--worlds N`, expect exit status 1, remove the temp dir.
"""

import os
import shutil
import subprocess
import sys
import tempfile
import time

VERIF = os.path.dirname(os.path.dirname(os.path.abspath(__file__)))

M = []


def mut(mid, prop, path, old, new, worlds=None, note=""):
    M.append(dict(id=mid, prop=prop, path=path, old=old, new=new, worlds=worlds, note=note))


# ---------------------------------------------------------------- C01
mut("c01-nocopy", "C01", "clustering/sbc.py", "system_copy = system.copy()", "system_copy = system",
    note="input wrapped / re-celled in place")
mut("c01-rng-once", "C01", "clustering/sbc.py", "self.rng = np.random.default_rng(seed)",
    "self.rng = getattr(self, 'rng', None) or np.random.default_rng(seed)", note="generator survives on a reused SBC")
mut("c01-global-rng", "C01", "clustering/sbc.py", "i_seed = self.rng.choice(list(indices), 1)[0]",
    "i_seed = np.random.choice(list(indices), 1)[0]", note="seed atoms drawn from the process-global RNG")
mut("c01-no-localize", "C01", "clustering/sbc.py",
    "        clusters = self._localize_clusters(\n            system_copy, clusters, merge_radius, distances\n        )\n", "",
    note="overlaps not resolved")
mut("c01-no-clean", "C01", "clustering/sbc.py", "        clusters = self._clean_clusters(clusters, bond_threshold)\n", "",
    note="dangling atoms kept")
mut("c01-merge-foreign", "C01", "clustering/sbc.py",
    "filter(lambda x: atomic_numbers[x] in target.species, source.indices)", "filter(lambda x: True, source.indices)",
    note="merge keeps foreign species")
mut("c01-dist-cache", "C01", "clustering/sbc.py",
    "        distances = matid.geometry.get_distances(system_copy, radii)\n",
    "        if getattr(self, '_dc', None) is None or self._dc[0] != len(system_copy):\n"
    "            self._dc = (len(system_copy), matid.geometry.get_distances(system_copy, radii))\n"
    "        distances = self._dc[1]\n",
    note="distances cached on the instance keyed by atom count")
mut("c01-valueerror-empty", "C01", "clustering/sbc.py",
    "                    raise ValueError(\n                        \"Cannot process system with zero-volume cell and periodic boundaries.\"\n                    )",
    "                    return []", note="ValueError path returns []")
mut("c01-wrap-restore", "C01", "clustering/sbc.py",
    "        system_copy = system.copy()\n",
    "        system_copy = system.copy()\n        _pbc0 = system.get_pbc().copy()\n        system.set_pbc(True)\n        self._restore = (system, _pbc0)\n",
    note="input temporarily modified, restored only at the end (see next mutant line)", worlds=None)
# the matching 'restore' for c01-wrap-restore is applied through a second replacement below
# ---------------------------------------------------------------- C13
mut("c13-stale-cache", "C13", "clustering/sbc.py",
    "            cluster._distance_matrix_radii_mic = None\n", "", note="revert of fix 4cd6c35")
mut("c13-no-radii", "C13", "clustering/cluster.py",
    "                kwargs[\"radii\"] = np.asarray(self._radii)[self.indices]", "                pass", note="revert of fix 77ce6cb (part 1)")
mut("c13-merge-no-radii", "C13", "clustering/sbc.py", "                radii=target._radii,\n", "", note="revert of fix 77ce6cb (part 2)")
mut("c13-wrong-threshold", "C13", "clustering/cluster.py",
    "                self._bond_threshold,\n                dist_matrix_radii_mic_1x", "                0.65,\n                dist_matrix_radii_mic_1x",
    note="shortcut uses the default bond threshold")
mut("c01-cache-early", "C01", "clustering/sbc.py",
    "        clusters = self._localize_clusters(",
    "        for _c in clusters:\n            _c._get_distance_matrix_radii_mic()\n        clusters = self._localize_clusters(",
    note="cache filled before localisation rewrites indices (get_clusters raises IndexError / keeps wrong atoms: C01's business; the C13 fix re-reads the matrix afterwards, so C13 itself still holds)")
# ---------------------------------------------------------------- C17
mut("c17-nocopy", "C17", "classification/classifier.py", "system = input_system.copy()", "system = input_system", note="input wrapped in place")
mut("c17-sticky-tol", "C17", "classification/classifier.py",
    "            if self.pos_tol_mode == \"relative\":\n                self.abs_pos_tol = np.array(self.pos_tol) * global_min_dist",
    "            if self.pos_tol_mode == \"relative\" and self.abs_pos_tol is None:\n                self.abs_pos_tol = np.array(self.pos_tol) * global_min_dist",
    note="absolute tolerance kept from the previous call")
mut("c17-swap-1d-3d", "C17", "classification/classifier.py", "classification = Class1D(input_system)", "classification = Class3D(input_system)")
mut("c17-no-periodicity-test", "C17", "classification/classifier.py", "if covered and region_is_periodic:", "if region_is_periodic or covered:",
    note="Surface/Material2D without coverage")
mut("c17-dist-cache", "C17", "classification/classifier.py",
    "        distances = matid.geometry.get_distances(system)\n",
    "        if getattr(self, '_dc', None) is None or self._dc[0] != n_atoms:\n"
    "            self._dc = (n_atoms, matid.geometry.get_distances(system))\n"
    "        distances = self._dc[1]\n", note="distances cached on the classifier keyed by atom count")
mut("c17-atom-class", "C17", "classification/classifier.py", "            if n_atoms == 1:\n                classification = Atom(input_system)",
    "            if n_atoms <= 2:\n                classification = Atom(input_system)")
# ---------------------------------------------------------------- C02
mut("c02-max-cell", "C02", "core/periodicfinder.py", "distance_mask = seed_span_lengths < self.max_cell_size",
    "distance_mask = seed_span_lengths < 0.6 * self.max_cell_size", note="candidate spans limited to 3.6 A: crystals with longer same-species distances lose their basis")
mut("c02-adaptive-sign", "C02", "core/periodicfinder.py", "                            i_basis -= np.array(displacement)",
    "                            i_basis += np.array(displacement)", note="wrong sign in the adaptive cell update during region tracking")
mut("c02-span-factor", "C02", "core/periodicfinder.py", "(metric >= 0.4 * (0 if len(metric) == 0 else metric.max()))",
    "(metric >= 0.9 * (0 if len(metric) == 0 else metric.max()))")
mut("c02-celllist-cutoff", "C02", "core/periodicfinder.py", "            max(pos_tol, 1),\n", "            pos_tol / 2,\n")
mut("c02-multipliers", "C02", "core/periodicfinder.py", "multipliers_3d = multipliers_3d[1:]", "multipliers_3d = multipliers_3d[1:-1]")
mut("c02-strike-region", "C02", "clustering/sbc.py", "                indices -= i_indices\n", "                indices -= i_indices\n                indices -= set(np.where(distances.dist_matrix_mic[i_seed] < 2 * max_cell_size)[0])\n",
    note="also strikes every atom near a successful seed")
# ---------------------------------------------------------------- C03
mut("c03-species-relaxed", "C03", "geometry/geometry.py", "                if closest_atomic_number == atomic_number:\n                    match = closest_index\n                    substitution = None",
    "                if True:\n                    match = closest_index\n                    substitution = None")
mut("c03-merge-always", "C03", "clustering/sbc.py", "if best_overlap_score > merge_threshold:", "if best_overlap_score > 0:")
mut("c03-localize-smaller", "C03", "clustering/sbc.py", "                    if n_near > max_near:", "                    if n_near < max_near or max_near == 0:")
# ---------------------------------------------------------------- C04
mut("c04-shift-second-group", "C04", "core/periodicfinder.py", "                group_avg = np.mean(final_pos, axis=0)\n                averaged_rel_pos.append(group_avg)\n                averaged_rel_num.append(group_num)\n\n            if i_group == seed_group_index:\n                new_group_index = len(averaged_rel_num) - 1\n        seed_group_index = new_group_index\n\n        # If no atoms are found in the proto cell, return without results\n        if not averaged_rel_pos or not averaged_rel_num:\n            return None, None, None\n\n        averaged_rel_pos = np.array(averaged_rel_pos)\n\n        proto_cell = Atoms(\n            scaled_positions=averaged_rel_pos,",
    "                group_avg = np.mean(final_pos, axis=0) + (0.06 if len(averaged_rel_pos) == 1 else 0.0)\n                averaged_rel_pos.append(group_avg)\n                averaged_rel_num.append(group_num)\n\n            if i_group == seed_group_index:\n                new_group_index = len(averaged_rel_num) - 1\n        seed_group_index = new_group_index\n\n        # If no atoms are found in the proto cell, return without results\n        if not averaged_rel_pos or not averaged_rel_num:\n            return None, None, None\n\n        averaged_rel_pos = np.array(averaged_rel_pos)\n\n        proto_cell = Atoms(\n            scaled_positions=averaged_rel_pos,",
    note="second basis atom of 3D prototype cells displaced relative to the first")
mut("c04-2d-cell-pbc", "C04", "core/periodicfinder.py", "            symbols=averaged_rel_num,\n            pbc=[True, True, False],", "            symbols=averaged_rel_num,\n            pbc=[True, True, True],",
    note="2D prototype cells flagged periodic in three directions")
mut("c04-no-average", "C04", "core/periodicfinder.py", "                group_avg = np.mean(final_pos, axis=0)", "                group_avg = final_pos[-1] + 0.08")
mut("c04-no-minimize", "C04", "core/periodicfinder.py",
    "            proto_cell = matid.geometry.get_minimized_cell(\n                proto_cell, 2, 2 * self.pos_tol\n            )\n            offset = proto_cell.get_positions()[seed_group_index]",
    "            offset = proto_cell.get_positions()[seed_group_index]")
mut("c04-pbc-2d", "C04", "core/periodicfinder.py", "                    proto_cell.set_pbc([True, True, False])", "                    proto_cell.set_pbc([True, True, True])")

EXTRA = {
    # second replacement for two-site mutants
    "c01-wrap-restore": ("clustering/sbc.py", "        return clusters\n\n    def _merge_clusters(", "        system.set_pbc(_pbc0)\n        return clusters\n\n    def _merge_clusters("),
}

DEFAULT_WORLDS = {"C01": 900, "C13": 1200, "C17": 800, "C02": 260, "C03": 220, "C04": 480}  # = the quick plans

# Mutants that are NOT expected to be caught: they do not break the property on its family
# (no demonstration of a failure exists): the region search is robust against them on clean
# single crystals / clean two-material stacks.
EQUIVALENT_ON_FAMILY = {"c02-span-factor", "c02-celllist-cutoff", "c02-multipliers", "c02-strike-region",
                        "c03-merge-always", "c03-localize-smaller",
                        # a rigid shift of every basis atom / a taller vacuum / a flag on a rarely taken path:
                        # the analysed symmetry is unchanged
                        "c04-no-average", "c04-no-minimize", "c04-pbc-2d"}


def run_one(m, keep=False):
    tmp = tempfile.mkdtemp(prefix="matsim-mut-")
    try:
        shutil.copytree("/repo/matid", os.path.join(tmp, "matid"), ignore=shutil.ignore_patterns("__pycache__"))
        reps = [(m["path"], m["old"], m["new"])]
        if m["id"] in EXTRA:
            reps.append(EXTRA[m["id"]])
        for path, old, new in reps:
            f = os.path.join(tmp, "matid", path)
            s = open(f).read()
            if s.count(old) != 1:
                return "NOT-APPLICABLE(%d matches)" % s.count(old), 0.0, ""
            open(f, "w").write(s.replace(old, new))
        env = dict(os.environ)
        env["MATSIM_REPO"] = tmp
        t = time.time()
        p = subprocess.run(
            [os.path.join(VERIF, "check"), m["prop"], "--no-evidence", "--replay-dir", os.path.join(tmp, "replays"),
             "--worlds", str(m["worlds"] or DEFAULT_WORLDS[m["prop"]])],
            env=env, capture_output=True, text=True, timeout=1800)
        dt = time.time() - t
        lines = [l for l in p.stdout.splitlines() if l.startswith("VIOLATION") or l.startswith("  class=") or l.startswith("HARNESS")]
        verdict = {1: "CAUGHT", 0: "MISSED", 2: "HARNESS-ERROR"}.get(p.returncode, "rc=%d" % p.returncode)
        return verdict, dt, "\n".join(lines[:4])
    finally:
        shutil.rmtree(tmp, ignore_errors=True)


def main(argv):
    sel = [m for m in M if not argv or m["id"] in argv or m["prop"] in argv]
    res = []
    for m in sel:
        verdict, dt, detail = run_one(m)
        print("%-26s %-4s %-14s %6.1fs  %s" % (m["id"], m["prop"], verdict, dt, m.get("note", "")), flush=True)
        if detail:
            print("      " + detail.replace("\n", "\n      "), flush=True)
        res.append((m["id"], verdict))
    missed = [r for r in res if r[1] != "CAUGHT" and r[0] not in EQUIVALENT_ON_FAMILY]
    equiv = [r for r in res if r[0] in EQUIVALENT_ON_FAMILY]
    print("sensitivity: %d mutants, %d caught; equivalent on the family (not expected to be caught): %s; not caught: %s"
          % (len(res), sum(1 for r in res if r[1] == "CAUGHT"), equiv, missed))
    return 0 if not missed else 1


if __name__ == "__main__":
    sys.exit(main(sys.argv[1:]))
