"""Builds a witness replay file for a recipe-class known finding:
    mkwitness.py C02 <out.json> material=NaCl kind=slab miller=111 layers=4 pbcz=0
    mkwitness.py C04 <out.json> mono=MoS2-2H rep=4
Tries presentations / integer seeds until the violation shows, writes the spec."""
import json, sys, warnings
warnings.simplefilter("ignore"); warnings.showwarning = lambda *a, **k: None
sys.path.insert(0, "/verif"); sys.path.insert(0, "/repo")
import numpy as np
from matsim import gens
from matsim.ops import run_world
from matsim.sio import atoms_to_spec

prop, out = sys.argv[1], sys.argv[2]
kw = dict(x.split("=") for x in sys.argv[3:])
rng = np.random.default_rng(12345)
for attempt in range(40):
    if "mono" in kw:
        u = gens.MONO[kw["mono"]](); u.pbc = [True, True, False]
        n = int(kw["rep"]); a = u * (n, n, 1); a.pbc = [True, True, bool(attempt % 2)]
        b, _ = gens.present(a, 0.0, rng, rotate=False)
        recipe = {"family": "monolayer", "material": kw["mono"], "rep": n, "rep2": n, "reps4": bool(n == 4), "pbcz": bool(attempt % 2), "noise": 0.0, "n": len(b)}
        structs = {"s0": atoms_to_spec(b, recipe), "unit0": atoms_to_spec(u, {"family": "unitcell", "material": kw["mono"]})}
        ops = [{"op": "CLUSTER", "s": "s0", "params": {}, "seedspec": {"kind": "int", "n": 7 + attempt}, "inst": "fresh"},
               {"op": "ANALYZE", "ref": 0, "tol": 0.1, "source": "unit0", "mono": True}]
    else:
        miller = tuple(int(c) for c in kw["miller"]); layers = int(kw["layers"]); pbcz = bool(int(kw["pbcz"]))
        a, conv, st = gens.build_crystal(kw["material"], kw["kind"], miller, layers, pbcz)
        assert gens.prim_ok(conv) and gens.precond(a) is None, "recipe does not pass the precondition"
        noise = float(kw.get("noise", 0))
        b, _ = gens.present(a, noise, rng, rotate=bool(attempt))
        recipe = {"family": "crystal", "material": kw["material"], "structure": st, "kind": kw["kind"], "miller": kw["miller"], "layers": layers, "pbcz": pbcz, "noise": noise, "n": len(b)}
        structs = {"s0": atoms_to_spec(b, recipe)}
        ops = [{"op": "CLUSTER", "s": "s0", "params": {}, "seedspec": {"kind": "int", "n": 7 + attempt}, "inst": "fresh", "expect": {"kind": "single", "dim": 2 if kw["kind"] == "slab" else 3}}]
        if prop == "C04":
            structs["unit0"] = atoms_to_spec(conv, {"family": "unitcell", "material": kw["material"]})
            del ops[0]["expect"]
            ops.append({"op": "ANALYZE", "ref": 0, "tol": 0.1 if not noise else 0.5, "source": "unit0", "mono": False})
    spec = {"property": prop, "seed": 0, "world": "witness", "tier": "quick", "instances": {}, "structures": structs, "ops": ops}
    s = run_world(spec)
    if s["violation"]:
        json.dump({"property": prop, "seed": 0, "world": "witness", "violation": s["violation"], "spec": spec}, open(out, "w"))
        print("witness written after %d attempts:" % (attempt + 1), s["violation"]["cls"], s["violation"]["detail"][:150])
        sys.exit(0)
print("no violation found"); sys.exit(1)
