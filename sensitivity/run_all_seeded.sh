#!/bin/bash
# Runs every seeded change through sensitivity/seeded.sh and prints one line per change.
cd "$(dirname "$0")/.."
for d in seeded/*/; do
  id=$(basename $d); prop=$(python3 -c "import json;print(json.load(open('$d/meta.json'))['property'])")
  out=$(./sensitivity/seeded.sh $d $prop 2>&1 | grep -v conda)
  rc=$(echo "$out" | grep "^check rc=" | cut -d= -f2)
  nviol=$(echo "$out" | grep -c "^VIOLATION")
  cls=$(echo "$out" | grep "  class=" | sed 's/ world=.*//' | sort | uniq -c | tr '\n' ';')
  tests=$(echo "$out" | grep -o "[0-9]* passed" | head -1)
  echo "$id $prop check_rc=$rc violations=$nviol tests=[$tests] classes: $cls"
done
