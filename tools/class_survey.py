"""Class-wise schedule survey for C02 (and the C04 workflow on the same runs):
every recipe class of the quantified family x P presentations x S seed-atom
schedules, through the same world runner and oracle as the check.

    /venv/bin/python tools/class_survey.py out.jsonl [P] [S] [maxn]

Used to decide which recipe classes are listed as known findings; not a check.
"""
import json, os, sys, warnings
warnings.simplefilter("ignore"); warnings.showwarning = lambda *a, **k: None
HERE = os.path.dirname(os.path.dirname(os.path.abspath(__file__)))
sys.path.insert(0, os.environ.get("MATSIM_REPO", "/repo")); sys.path.insert(0, HERE)
import numpy as np
from concurrent.futures import ProcessPoolExecutor
import multiprocessing as mp
from matsim import gens
from matsim.prng import np_stream
from matsim.sio import atoms_to_spec
from matsim.worlds import seed_strategy, CRYSTAL_STRATS

def classes():
    out = []
    for name in gens.MATERIALS:
        try:
            conv, st = gens.conv_cell(name)
        except Exception:
            continue
        out.append((name, "bulk", (0, 0, 0), 0, True))
        millers = gens.MILLERS
        for m in millers:
            for L in (3, 4):
                for pz in (False, True):
                    out.append((name, "slab", m, L, pz))
    return out

def task(args):
    (name, kind, miller, layers, pbcz), P, S, maxn = args
    from matsim.ops import run_world
    key = "%s:%s:%s:L%d:%s" % (name, kind, "".join(map(str, miller)) if kind == "slab" else "-", layers, "T" if pbcz else "F")
    rec = {"class": key, "ops": 0, "fail": 0, "fails": []}
    try:
        a, conv, st = gens.build_crystal(name, kind, miller, layers, pbcz)
    except Exception as e:
        rec["skip"] = "buildfail:" + type(e).__name__; return rec
    if len(a) > maxn: rec["skip"] = "large"; return rec
    if not gens.prim_ok(conv): rec["skip"] = "prim"; return rec
    pc = gens.precond(a)
    if pc: rec["skip"] = "pre-" + pc; return rec
    rec["n"] = len(a); rec["structure"] = st
    rng = np_stream(777, "survey", key, "w")
    for p in range(P):
        noise = [0.0, 0.02, 0.05][p % 3]
        b, _ = gens.present(a, noise, rng)
        if noise and gens.precond(b, margin=0.15 - 2 * noise): continue
        recipe = {"family": "crystal", "material": name, "structure": st, "kind": kind, "miller": "".join(map(str, miller)) if kind == "slab" else "-",
                  "layers": layers, "pbcz": bool(pbcz), "noise": noise, "n": len(b)}
        for k in range(S):
            if os.environ.get("SURVEY_UNIFORM3"):
                ss = {"kind": "script", "strategy": "uniform3", "prio": [int(x) for x in rng.choice(len(b), 3, replace=False)], "then": "rand", "r": int(rng.integers(0, 2**31 - 1))}
            else:
                ss = seed_strategy(b, rng, allow=CRYSTAL_STRATS)
            spec = {"property": "C02", "seed": 777, "world": key, "tier": "thorough", "instances": {}, "structures": {"s0": atoms_to_spec(b, recipe)},
                    "ops": [{"op": "CLUSTER", "s": "s0", "params": {}, "seedspec": ss, "inst": "fresh", "expect": {"kind": "single", "dim": 3 if kind == "bulk" else 2}}]}
            s = run_world(spec)
            rec["ops"] += 1
            v = s["violation"]
            if v:
                rec["fail"] += 1
                dump = os.environ.get("SURVEY_DUMP_DIR")
                if dump and rec["fail"] <= 2:
                    os.makedirs(dump, exist_ok=True)
                    with open(os.path.join(dump, "C02-%s-%d.json" % (key.replace(":", "_"), rec["fail"])), "w") as fdump:
                        json.dump({"property": "C02", "seed": 777, "world": key, "violation": v, "spec": spec}, fdump)
                if len(rec["fails"]) < 3:
                    rec["fails"].append({"p": p, "noise": noise, "cls": v["cls"], "detail": v["detail"][:90], "seedspec": ss})
    return rec

if __name__ == "__main__":
    out = sys.argv[1]; P = int(sys.argv[2]) if len(sys.argv) > 2 else 4; S = int(sys.argv[3]) if len(sys.argv) > 3 else 30
    maxn = int(sys.argv[4]) if len(sys.argv) > 4 else 300
    cl = classes()
    only = os.environ.get("SURVEY_ONLY")
    if only:
        want = set(only.split(","))
        cl = [c for c in cl if "%s:%s:%s:L%d:%s" % (c[0], c[1], "".join(map(str, c[2])) if c[1] == "slab" else "-", c[3], "T" if c[4] else "F") in want]
    if os.environ.get("SURVEY_STRUCTS"):
        want = set(os.environ["SURVEY_STRUCTS"].split(","))
        cl = [c for c in cl if gens.conv_cell(c[0])[1] in want]
    if os.environ.get("SURVEY_ELEMENTS_SLABS"):
        el = dict(gens.ELEMS)
        cl = [c for c in cl if c[0] in el and c[1] == "slab"]
    print(len(cl), "classes", flush=True)
    with ProcessPoolExecutor(16, mp_context=mp.get_context("fork")) as ex, open(out, "w") as f:
        for rec in ex.map(task, [(c, P, S, maxn) for c in cl], chunksize=1):
            f.write(json.dumps(rec) + "\n"); f.flush()
