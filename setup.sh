#!/bin/bash
# Offline setup: nothing is fetched or built; verify the interpreter and imports.
set -e
cd "$(dirname "$0")"
mkdir -p evidence replays
/venv/bin/python - <<'PY'
import sys
sys.path.insert(0, "/repo")
import numpy, scipy, ase, spglib, sklearn, networkx
import matid, matid.ext
assert matid.__file__.startswith("/repo/"), matid.__file__
print("setup ok: python", sys.version.split()[0], "matid", matid.__file__)
PY
