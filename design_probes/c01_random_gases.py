import numpy as np, ase.build, time, traceback, collections
from ase import Atoms
from matid.clustering import SBC
import warnings; warnings.simplefilter("ignore")
rng = np.random.default_rng(1)
errs = collections.Counter(); ex={}
t0=time.time(); n=0
for trial in range(300):
    nat = int(rng.integers(1,40))
    L = rng.uniform(2,12,3)
    cell = np.diag(L) + rng.uniform(-1,1,(3,3))*rng.choice([0,1])
    pbc = rng.random(3)<0.5
    zero = rng.random(3)<0.15
    for i in range(3):
        if zero[i] and not pbc[i]: cell[i]=0
    pos = rng.random((nat,3))@np.where(np.abs(cell).sum(1,keepdims=True)>0,cell,np.eye(3)*5)
    if rng.random()<0.3: pos += rng.integers(-2,3,(nat,3))@np.where(np.abs(cell).sum(1,keepdims=True)>0,cell,np.eye(3)*5)
    num = rng.choice([1,6,8,14,29,79], nat)
    a = Atoms(numbers=num, positions=pos, cell=cell, pbc=pbc)
    try:
        cl = SBC().get_clusters(a, seed=int(rng.integers(1000)))
        n+=1
        allidx=[i for c in cl for i in c.indices]
        if len(allidx)!=len(set(allidx)): errs["overlap"]+=1; ex["overlap"]=(trial,)
        for c in cl:
            if len(c.indices)==0: errs["empty"]+=1
            if not set(num[c.indices])<=set(c.species): errs["species"]+=1
    except Exception as e:
        k=type(e).__name__+":"+str(e)[:60]
        errs[k]+=1; ex.setdefault(k,(trial,nat,pbc.tolist(),zero.tolist(),traceback.format_exc().splitlines()[-4:]))
print(n, time.time()-t0); 
for k,v in errs.items(): print(v,k, ex.get(k))
