import numpy as np, ase.build, collections, warnings, pickle
warnings.simplefilter("ignore")
from ase.build import bulk, surface
from matid.clustering import SBC
conv=bulk("Ni",cubic=True)
s=surface(conv,(1,1,1),3,vacuum=7,periodic=True)
a=s*(3,3,1); a.pbc=[True,True,False]
rng=np.random.default_rng(12)
out=collections.Counter(); fails=[]
for t in range(200):
    b=a.copy()
    b=b[rng.permutation(len(b))]
    b.rotate(rng.uniform(0,360), rng.normal(size=3), rotate_cell=True)
    b.positions += rng.uniform(-5,5,3)
    seed=int(rng.integers(10**6))
    cl=SBC().get_clusters(b,seed=seed)
    k=tuple(sorted((len(c.indices),c.get_dimensionality()) for c in cl))
    out[k]+=1
    if k!=((108,2),): fails.append((b,seed,k))
for k,v in sorted(out.items()): print(k,v)
pickle.dump(fails,open("/tmp/fails.pkl","wb"))
