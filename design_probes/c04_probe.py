import numpy as np, ase.build, time, collections, warnings
warnings.simplefilter("ignore")
from ase import Atoms
from ase.build import bulk, surface
from matid.clustering import SBC
from matid.symmetry import SymmetryAnalyzer
rng=np.random.default_rng(4)
def sig(an):
    return (an.get_material_id(), an.get_space_group_number(), sorted((s.wyckoff_letter,s.element) for s in an.get_wyckoff_sets_conventional(False)))
def occ(an):
    # letter, element occupation normalised per conventional cell
    return sorted((s.wyckoff_letter,s.element,s.multiplicity) for s in an.get_wyckoff_sets_conventional(False))
cases=[("Cu",dict()),("Fe",dict()),("Si",dict()),("Mg",dict()),("NaCl",dict(crystalstructure="rocksalt",a=5.64)),("ZnS",dict(crystalstructure="zincblende",a=5.41)),("CsCl",dict(crystalstructure="cesiumchloride",a=4.12)),("CaF2",dict(crystalstructure="fluorite",a=5.46)),("ZnO",dict(crystalstructure="wurtzite",a=3.25,c=5.2))]
res=collections.Counter()
for name,kw in cases:
    prim=bulk(name,**kw)
    ref=SymmetryAnalyzer(prim,symmetry_tol=0.1)
    rs=(ref.get_material_id(),ref.get_space_group_number(),occ(ref))
    cell=prim.cell
    h=prim.get_volume()/np.array([np.linalg.norm(np.cross(cell[(i+1)%3],cell[(i+2)%3])) for i in range(3)])
    sup=prim*tuple(np.ceil(12.5/h).astype(int))
    for kind in ("bulk","slab"):
        if kind=="slab":
            try:
                conv=bulk(name,cubic=True,**kw) if name not in("Mg","ZnO") else bulk(name,orthorhombic=False,**kw)
            except Exception: conv=prim
            s=surface(conv,(1,0,0) if name not in ("Mg","ZnO") else (0,0,1),4,vacuum=8,periodic=True)
            rep=np.ceil(12.5/np.linalg.norm(s.cell.array[:2],axis=1)).astype(int)
            a=s*(int(rep[0]),int(rep[1]),1)
        else: a=sup.copy()
        for seed in (7,3):
            a2=a[rng.permutation(len(a))]
            a2.rotate(rng.uniform(0,360), rng.normal(size=3), rotate_cell=True)
            t=time.time()
            cl=SBC().get_clusters(a2,seed=seed)
            ok1 = len(cl)==1 and len(cl[0].indices)==len(a2)
            if not cl: print(name,kind,seed,"no clusters"); res["nocl"]+=1; continue
            c=cl[0].get_cell()
            an=SymmetryAnalyzer(c,symmetry_tol=0.1)
            try: s2=(an.get_material_id(),an.get_space_group_number(),occ(an))
            except Exception as e: s2=("ERR",str(e)[:50])
            ok2 = s2[:2]==rs[:2]
            res[(ok1,ok2)]+=1
            if not(ok1 and ok2): print(name,kind,seed,len(a2),[len(x.indices) for x in cl], c.pbc, len(c), s2[1:], rs[1:], round(time.time()-t,2))
print(res)
