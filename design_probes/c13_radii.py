import numpy as np, ase.build, collections, warnings
warnings.simplefilter("ignore")
from ase import Atoms
from matid.clustering import SBC
from matid.symmetry import SymmetryAnalyzer
import matid.geometry as g
rng=np.random.default_rng(7)
# --- C13 (ii): vdw radii
hits=collections.Counter()
for trial in range(30):
    a = ase.build.bulk("Cu","fcc",a=3.6,cubic=True)*(3,3,3)
    if trial%2: a.set_pbc(False); a.center(vacuum=6)
    keep = rng.random(len(a)) > 0.1; a=a[keep]
    for radii in ("vdw","covalent"):
        for bt in (0.4,0.65,1.0):
            cl = SBC().get_clusters(a, seed=int(rng.integers(100)), radii=radii, bond_threshold=bt)
            R = g.get_radii(radii, a.get_atomic_numbers())
            for c in cl:
                try: d1=c.get_dimensionality()
                except Exception as e: d1="EXC:"+type(e).__name__
                d2=g.get_dimensionality(c.get_atoms(), bt, radii=R[c.indices])
                hits[(radii,bt,d1==d2, c._radii is None, c._merged)]+=1
                if d1!=d2 and hits[(radii,bt,False)]<3: hits[(radii,bt,False)]+=1; print(trial,radii,bt,len(c.indices),d1,d2,c._merged)
for k,v in sorted(hits.items(),key=str): print(k,v)
