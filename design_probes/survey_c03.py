import sys, json, time, numpy as np, warnings, collections, os
warnings.simplefilter("ignore")
sys.path.insert(0,'/tmp/survey')
from gen import precond
from ase.build import fcc100, fcc111, bcc100, bcc110
from ase.data import reference_states, chemical_symbols, atomic_numbers
from matid.clustering import SBC
FCC=[(chemical_symbols[z],reference_states[z]['a']) for z in range(1,93) if reference_states[z] and reference_states[z].get('symmetry')=='fcc']
BCC=[(chemical_symbols[z],reference_states[z]['a']) for z in range(1,93) if reference_states[z] and reference_states[z].get('symmetry')=='bcc']
PAIRS=[]
for fam,facets,lat in ((FCC,('100','111'),'fcc'),(BCC,('100','110'),'bcc')):
    for s1,a1 in fam:
        for s2,a2 in fam:
            if s1!=s2 and abs(a1-a2)/a1<0.05:
                for f in facets: PAIRS.append((lat,f,s1,a1,s2,a2))
def slab(lat,facet,sym,a,size):
    fn={'fcc100':fcc100,'fcc111':fcc111,'bcc100':bcc100,'bcc110':bcc110}[lat+facet]
    return fn(sym,size=size,a=a) if facet=='100' else fn(sym,size=size,a=a,orthogonal=False)
def task(tid):
    rng=np.random.default_rng(2*10**6+tid)
    lat,facet,s1,a1,s2,a2=PAIRS[int(rng.integers(len(PAIRS)))]
    n1,n2=int(rng.integers(3,6)),int(rng.integers(3,6)); rep=int(rng.integers(4,6))
    pbcz=bool(rng.integers(2)); noise=[0,0.03][int(rng.integers(2))]
    rec=dict(tid=tid,lat=lat,facet=facet,s1=s1,s2=s2,n1=n1,n2=n2,rep=rep,pbcz=pbcz,noise=noise)
    st=slab(lat,facet,s1,a1,(rep,rep,n1+n2))
    z=st.positions[:,2]; levels=np.unique(np.round(z,4)); assert len(levels)==n1+n2
    top=z>levels[n1-1]+1e-3
    st.numbers[top]=atomic_numbers[s2]
    st.center(vacuum=7,axis=2); st.pbc=[True,True,pbcz]
    rec['n']=len(st)
    if len(st)>300: rec['out']='large'; return rec
    pc=precond(st)
    if pc: rec['out']='pre-'+pc; return rec
    idxA=set(np.where(~top)[0].tolist()); idxB=set(np.where(top)[0].tolist())
    b=st.copy()
    if noise:
        d=rng.normal(size=(len(b),3)); d/=np.linalg.norm(d,axis=1)[:,None]; b.positions+=d*noise*rng.random((len(b),1))
    perm=rng.permutation(len(b)); b=b[perm]
    inv={int(p):i for i,p in enumerate(perm)}
    SA=frozenset(inv[i] for i in idxA); SB=frozenset(inv[i] for i in idxB)
    if rng.random()<0.5:
        b.rotate(rng.uniform(0,360), rng.normal(size=3), rotate_cell=True); b.positions+=rng.uniform(-5,5,3)
    seed=int(rng.integers(10**6)); rec['seed']=seed
    t=time.time()
    try:
        cl=SBC().get_clusters(b,seed=seed)
        got={frozenset(int(i) for i in c.indices) for c in cl}
        ok= len(cl)==2 and got=={SA,SB} and all(c.get_dimensionality()==2 for c in cl)
        rec['out']='ok' if ok else 'FAIL'; rec['cl']=[(len(c.indices),c.get_dimensionality(),len(set(c.indices)&SA),len(set(c.indices)&SB)) for c in cl]; rec['sizes']=(len(SA),len(SB))
    except Exception as e:
        rec['out']='EXC:'+type(e).__name__+str(e)[:50]
    rec['t']=round(time.time()-t,2)
    return rec
if __name__=="__main__":
    from concurrent.futures import ProcessPoolExecutor
    import multiprocessing as mp
    lo,hi=int(sys.argv[1]),int(sys.argv[2])
    print(len(PAIRS),"pairs")
    with ProcessPoolExecutor(14, mp_context=mp.get_context("fork")) as ex, open(f"/tmp/survey/out3b_{lo}_{hi}.jsonl","w") as f:
        for rec in ex.map(task, range(lo,hi), chunksize=4):
            f.write(json.dumps(rec)+"\n"); f.flush()
