import numpy as np, warnings
warnings.simplefilter("ignore")
from ase import Atoms
from ase.build import bulk, surface
from ase.spacegroup import crystal
from ase.data import reference_states, chemical_symbols, covalent_radii
import scipy.sparse.csgraph as cg

ELEMS=[(chemical_symbols[z],reference_states[z]['symmetry']) for z in range(1,93)
       if reference_states[z] and reference_states[z].get('symmetry') in ('fcc','bcc','hcp','diamond','sc')]
COMPOUNDS={
 'NaCl':('rocksalt',dict(a=5.64)),'MgO':('rocksalt',dict(a=4.21)),'LiF':('rocksalt',dict(a=4.03)),'TiN':('rocksalt',dict(a=4.24)),
 'ZnS':('zincblende',dict(a=5.41)),'GaAs':('zincblende',dict(a=5.65)),'SiC':('zincblende',dict(a=4.36)),
 'CuZn':('cesiumchloride',dict(a=2.95)),'NiAl':('cesiumchloride',dict(a=2.89)),'FeAl':('cesiumchloride',dict(a=2.91)),
 'CaF2':('fluorite',dict(a=5.46)),'ZrO2':('fluorite',dict(a=5.07)),'Li2O':('antifluorite',dict(a=4.62)),
 'ZnO':('wurtzite',dict(a=3.25,c=5.2)),'GaN':('wurtzite',dict(a=3.19,c=5.19)),
 'SrTiO3':('perovskite',dict(a=3.905)),'BaTiO3':('perovskite',dict(a=4.0)),
 'TiO2':('rutile',dict(a=4.594,c=2.959,u=0.305)),'SnO2':('rutile',dict(a=4.737,c=3.186,u=0.307)),
}
def conv_cell(name):
    if name in dict(ELEMS):
        st=dict(ELEMS)[name]
        if st in('fcc','bcc','diamond','sc'):
            return bulk(name,cubic=True), st
        return bulk(name), st
    st,kw=COMPOUNDS[name]
    if st=='antifluorite':
        a=kw['a']; return crystal(['Li','O'],[(0.25,0.25,0.25),(0,0,0)],spacegroup=225,cellpar=[a,a,a,90,90,90]), st
    if st=='perovskite':
        a=kw['a']; A,B=name[:2],name[2:4]; return crystal([A,B,'O'],[(0,0,0),(.5,.5,.5),(.5,.5,0)],spacegroup=221,cellpar=[a,a,a,90,90,90]), st
    if st=='rutile':
        a,c,u=kw['a'],kw['c'],kw['u']; M=name[:2]; return crystal([M,'O'],[(0,0,0),(u,u,0)],spacegroup=136,cellpar=[a,a,c,90,90,90]), st
    if st=='wurtzite': return bulk(name,crystalstructure=st,**kw), st
    return bulk(name,crystalstructure=st,cubic=True,**kw), st

def heights(cell,axes=(0,1,2)):
    v=abs(np.linalg.det(cell)); return np.array([v/np.linalg.norm(np.cross(cell[(i+1)%3],cell[(i+2)%3])) for i in range(3)])

def precond(a, radii=covalent_radii, margin=0.15, bond=0.65, overlap=-0.6):
    from ase.geometry import get_distances
    D=a.get_all_distances(mic=True); r=radii[a.numbers]; R=D-r[:,None]-r[None,:]
    np.fill_diagonal(R,np.inf)
    # self-image distances for periodic small cells are irrelevant in supercells with heights>12
    if R.min()<overlap+margin: return 'overlap'
    n,_=cg.connected_components(R<=bond-margin)
    if n>1: return 'notbonded'
    # ambiguity band: no pair in (bond-margin, bond+margin)
    return None

def build(name, kind, miller, layers, pbcz, rng):
    conv,st=conv_cell(name)
    if kind=='bulk':
        prim=conv
        rep=np.ceil(12.5/heights(prim.cell.array)).astype(int)
        a=prim*tuple(int(x) for x in rep)
        a.pbc=True
    else:
        s=surface(conv,miller,layers,vacuum=7,periodic=True)
        c=s.cell.array; area=np.linalg.norm(np.cross(c[0],c[1])); h=np.array([area/np.linalg.norm(c[1]),area/np.linalg.norm(c[0])])
        rep=np.ceil(12.5/h).astype(int)
        a=s*(int(rep[0]),int(rep[1]),1); a.pbc=[True,True,pbcz]
    return a,st

def transform(a, noise, rng):
    b=a.copy()
    if noise:
        d=rng.normal(size=(len(b),3)); d/=np.linalg.norm(d,axis=1)[:,None]; b.positions+=d*noise*rng.random((len(b),1))
    b=b[rng.permutation(len(b))]
    b.rotate(rng.uniform(0,360), rng.normal(size=3), rotate_cell=True)
    b.positions+=rng.uniform(-5,5,3)
    return b
