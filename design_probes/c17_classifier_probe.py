import numpy as np, ase.build, time, traceback, collections, warnings
warnings.simplefilter("ignore")
from ase import Atoms
from matid.classification import Classifier
from matid.classification.classifications import *
import matid.geometry as g
rng = np.random.default_rng(3)
errs = collections.Counter(); ex={}; kinds=collections.Counter()
t0=time.time()
def gen(trial):
    kind = trial%4
    if kind==0:  # random gas
        nat=int(rng.integers(1,30)); L=rng.uniform(3,12,3)
        cell=np.diag(L)+rng.uniform(-1,1,(3,3))*rng.choice([0,1]); pbc=rng.random(3)<0.6
        if rng.random()<0.2: cell=np.zeros((3,3)); pbc=[False]*3; pos=rng.random((nat,3))*6
        else: pos=rng.random((nat,3))@cell
        return Atoms(numbers=rng.choice([1,6,8,14,29],nat),positions=pos,cell=cell,pbc=pbc)
    if kind==1:  # defective slab
        el=rng.choice(["Cu","Al","Fe","Si","Au"]); 
        try: a=ase.build.bulk(el,cubic=True)
        except Exception: a=ase.build.bulk("Cu",cubic=True)
        a=a*(int(rng.integers(2,4)),int(rng.integers(2,4)),int(rng.integers(1,4)))
        a.center(vacuum=float(rng.uniform(3,8)),axis=2); a.pbc=rng.random(3)<0.8
        a.rattle(float(rng.choice([0,0.05,0.2])),seed=trial)
        k=int(rng.integers(0,max(1,len(a)//5))); 
        if k: del a[[int(i) for i in rng.choice(len(a),k,replace=False)]]
        return a
    if kind==2:  # molecule in box
        m=ase.build.molecule(str(rng.choice(["H2O","CH4","C6H6","CO2","NH3"]))); m.center(vacuum=float(rng.uniform(0.5,5))); m.pbc=rng.random(3)<0.5
        if rng.random()<0.5: m.positions += rng.integers(-2,3,(len(m),3))@m.cell.array
        return m
    a=ase.build.mx2() if rng.random()<0.5 else ase.build.graphene(vacuum=5)
    a=a*(int(rng.integers(1,5)),int(rng.integers(1,5)),1); 
    if a.cell[2,2]<1: a.center(vacuum=5,axis=2)
    a.pbc=[True,True,bool(rng.random()<0.5)]
    return a
for trial in range(400):
    a=gen(trial)
    if len(a)==0: continue
    snap=(a.positions.copy(),a.cell.array.copy(),a.pbc.copy(),a.numbers.copy())
    try:
        c=Classifier().classify(a)
        kinds[type(c).__name__]+=1
        w=a.copy(); w.wrap()
        d=g.get_dimensionality(w, 3.5)
        exp={None:(Unknown,),0:(Class0D,),1:(Class1D,),2:(Class2D,),3:(Class3D,)}[d]
        if not isinstance(c,exp) or (d==0 and (type(c) is Atom)!=(len(a)==1)) or (d!=2 and type(c) not in (Unknown,Atom,Class0D,Class1D,Class3D)):
            errs["mismatch"]+=1; ex.setdefault("mismatch",(trial,d,type(c).__name__))
        if isinstance(c,Class2DWithCell):
            b=set(c.basis_indices); o=set(c.outliers)
            if b&o or (b|o)!=set(range(len(a))) or len(b)/len(a)<0.5 or c.prototype_cell is None: errs["2dbad"]+=1
        if not ((a.positions==snap[0]).all() and (a.cell.array==snap[1]).all()): errs["mutated"]+=1
    except Exception as e:
        k=type(e).__name__+":"+str(e)[:70]
        errs[k]+=1; ex.setdefault(k,(trial,len(a),a.pbc.tolist(),np.linalg.det(a.cell.array),traceback.format_exc().splitlines()[-5:]))
print(time.time()-t0, kinds)
for k,v in errs.items(): print(v,k, ex.get(k))
