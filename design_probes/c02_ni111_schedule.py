import numpy as np, collections, warnings, pickle, sys
warnings.simplefilter("ignore")
from matid.clustering import SBC
fails=pickle.load(open("/tmp/fails.pkl","rb"))
class Wrap(np.random.Generator):
    def __init__(self, script):
        super().__init__(np.random.PCG64(0)); self.log=[]; self.script=script
    def choice(self, a, size=None, **kw):
        r=np.array([self.script[len(self.log)]]) if len(self.log)<len(self.script) else np.array([list(a)[0]])
        self.log.append((int(r[0]),len(a))); return r
b,seed,k=fails[0]
def run(script):
    g=Wrap(script); cl=SBC().get_clusters(b,seed=g); return g.log, [(len(c.indices),c.get_dimensionality()) for c in cl]
print(run([44]))
print(run([44,15,17]))
print(run([44,15]))
print(run([44,16]))
print(run([15]))
print(run([17]))
