import numpy as np, ase.build
from ase import Atoms
from matid.clustering import SBC
import matid.geometry as g

# finite crystallite + stray atoms, to force cleaning
rng = np.random.default_rng(0)
hits=0
for trial in range(40):
    a = ase.build.bulk("Cu","fcc",a=3.6,cubic=True)*(3,3,3)
    a.set_pbc(False); a.center(vacuum=6)
    # remove random atoms
    n = len(a)
    keep = rng.random(n) > 0.25
    a = a[keep]
    sbc = SBC()
    cl = sbc.get_clusters(a, seed=int(rng.integers(100)))
    for c in cl:
        d1 = c.get_dimensionality()
        d2 = g.get_dimensionality(c.get_atoms(), c._bond_threshold, radii=(c._radii[c.indices] if c._radii is not None else "covalent"))
        m = c._distance_matrix_radii_mic
        if d1 != d2 or (m is not None and m.shape[0] != len(c.indices)):
            hits+=1
            print(trial, len(a), len(c.indices), m.shape if m is not None else None, d1, d2)
print("hits", hits)
