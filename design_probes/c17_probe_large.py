import sys, json, time, numpy as np, warnings, traceback
warnings.simplefilter("ignore")
sys.path.insert(0,'/tmp/c01')
import probe
from ase.geometry import complete_cell
from matid.classification import Classifier
from matid.classification.classifications import *
import matid.geometry as g
def task(tid):
    rng=np.random.default_rng(7*10**6+tid)
    a,kind=probe.gen(rng,maxn=150)
    cell=a.cell.array
    rec=dict(tid=tid,kind=kind,n=len(a),pbc=a.pbc.tolist())
    zero=(np.abs(cell).sum(1)==0)
    if zero.any() and not zero.all(): rec['out']='skip-partial-cell'; return rec   # C17: full-rank cells or no cell at all
    if zero.all(): a.pbc=False
    else:
        if abs(np.linalg.det(cell))/np.prod(np.linalg.norm(cell,axis=1))<0.05: rec['out']='skip-singular'; return rec
    kw={}
    if rng.random()<0.4:
        kw=dict(cluster_threshold=float(rng.choice([2.5,3.5,4.5])),bond_threshold=float(rng.choice([0.5,0.75,1.0])),min_coverage=float(rng.choice([0.3,0.5,0.8])))
    rec['kw']=kw
    s=probe.snap(a)
    try:
        clf=Classifier(**kw); c=clf.classify(a)
    except Exception as e:
        rec['out']='EXC:'+type(e).__name__+':'+str(e)[:80]; rec['tb']=traceback.format_exc().splitlines()[-3:]; return rec
    errs=[]
    w=a.copy(); w.wrap()
    d=g.get_dimensionality(w, kw.get('cluster_threshold',3.5))
    t=type(c)
    exp={None:{Unknown},0:{Atom} if len(a)==1 else {Class0D},1:{Class1D},2:{Class2D,Surface,Material2D},3:{Class3D}}[d]
    if t not in exp: errs.append(f'CLASS d={d} got={t.__name__}')
    if isinstance(c,Class2DWithCell):
        b=set(int(i) for i in c.basis_indices); o=set(int(i) for i in c.outliers)
        if b&o or (b|o)!=set(range(len(a))): errs.append('PARTITION')
        if len(b)/len(a)<kw.get('min_coverage',0.5): errs.append('COVERAGE')
        if c.prototype_cell is None: errs.append('NOCELL')
    if not probe.same(s,a): errs.append('INPUT_MUTATED')
    c2=clf.classify(a)
    if type(c2) is not t: errs.append('REPEAT')
    c3=Classifier(**kw).classify(a.copy())
    if type(c3) is not t: errs.append('FRESH')
    rec['cls']=t.__name__
    rec['out']='ok' if not errs else 'FAIL:'+','.join(errs)
    return rec
if __name__=="__main__":
    start,stop,stride,out=int(sys.argv[1]),int(sys.argv[2]),int(sys.argv[3]),sys.argv[4]
    with open(out,'a') as f:
        for t in range(start,stop,stride):
            f.write(json.dumps({"tid":t,"out":"STARTED"})+"\n"); f.flush()
            r=task(t); f.write(json.dumps(r)+"\n"); f.flush()
