import sys, json, time, numpy as np, warnings, collections, traceback
warnings.simplefilter("ignore")
from ase import Atoms
import ase.build
from ase.build import bulk, molecule
from ase.data import covalent_radii
from ase.data.vdw_alvarez import vdw_radii
from ase.geometry import get_distances, complete_cell
import scipy.sparse.csgraph as cg
from matid.clustering import SBC

METALS=["Cu","Al","Fe","Ni","Au","Ag","W","Mo","Ti","Mg","Si","C","Ge","Na","Pt"]
def crystal(rng):
    el=METALS[int(rng.integers(len(METALS)))]
    try: a=bulk(el,cubic=bool(rng.integers(2)))
    except Exception: a=bulk(el)
    if rng.random()<0.3:
        comp=[("NaCl","rocksalt",5.64),("MgO","rocksalt",4.21),("ZnS","zincblende",5.41),("CsCl","cesiumchloride",4.12)][int(rng.integers(4))]
        a=bulk(comp[0],crystalstructure=comp[1],a=comp[2],cubic=bool(rng.integers(2)))
    return a
def gen(rng, maxn=120):
    kind=int(rng.integers(7))
    if kind==0:  # gas
        n=int(rng.integers(1,40)); L=rng.uniform(2,14,3); cell=np.diag(L)
        if rng.random()<0.5: cell=cell+rng.uniform(-0.3,0.3,(3,3))*L[:,None]
        pos=rng.random((n,3))@cell; a=Atoms(numbers=rng.choice([1,6,8,14,29,79],n),positions=pos,cell=cell)
    elif kind in(1,2):  # defective / rattled crystal supercell
        u=crystal(rng); reps=[int(rng.integers(1,5)) for _ in range(3)]; a=u*tuple(reps)
        while len(a)>maxn: reps[int(np.argmax(reps))]-=1; a=u*tuple(max(1,r) for r in reps)
        a.rattle(float(rng.choice([0,0.02,0.1,0.3])),seed=int(rng.integers(1000)))
        k=int(rng.integers(0,max(1,len(a)//4)))
        if k and len(a)>k+1: del a[[int(i) for i in rng.choice(len(a),k,replace=False)]]
        if rng.random()<0.4:
            m=int(rng.integers(1,max(2,len(a)//5))); idx=rng.choice(len(a),min(m,len(a)),replace=False); a.numbers[idx]=int(rng.choice([6,8,29,47,79]))
    elif kind==3:  # crystallite / slab in vacuum
        u=crystal(rng); a=u*(int(rng.integers(2,5)),int(rng.integers(2,5)),int(rng.integers(1,4)))
        if len(a)>maxn: a=a[:maxn]
        ax=[i for i in range(3) if rng.random()<0.6]
        for i in ax: a.center(vacuum=float(rng.uniform(2,8)),axis=i)
    elif kind==4:  # two crystals in one cell (stack along z)
        u1=crystal(rng); u2=crystal(rng)
        A=u1*(3,3,2); B=u2*(3,3,2)
        B.set_cell(A.cell.array*[1,1,0]+B.cell.array*[0,0,1] if False else B.cell, scale_atoms=False)
        B.positions[:,2]+=A.positions[:,2].max()-B.positions[:,2].min()+float(rng.uniform(1.5,3.0))
        a=A+B; c=A.cell.array.copy(); c[2]=[0,0,a.positions[:,2].max()-a.positions[:,2].min()+float(rng.uniform(2,8))]; a.set_cell(c)
        if len(a)>maxn: a=a[rng.permutation(len(a))[:maxn]]
    elif kind==5:  # molecules in a box
        m=molecule(str(rng.choice(["H2O","CH4","C6H6","CO2","NH3","C2H6"]))); m.center(vacuum=float(rng.uniform(1,4)))
        a=m*(int(rng.integers(1,3)),int(rng.integers(1,3)),int(rng.integers(1,3)))
    else:  # 2D material
        a=ase.build.mx2(vacuum=float(rng.uniform(3,8))) if rng.random()<0.5 else ase.build.graphene(vacuum=float(rng.uniform(3,8)))
        a=a*(int(rng.integers(1,6)),int(rng.integers(1,6)),1)
        if len(a)>maxn: a=a[:maxn]
    pbc=rng.random(3)<0.6
    a.pbc=pbc
    cell=a.cell.array.copy()
    # degenerate: zero vector along non-periodic axis
    for i in range(3):
        if not pbc[i] and rng.random()<0.25: cell[i]=0
    a.set_cell(cell,scale_atoms=False)
    # unwrap
    r=rng.random()
    if r<0.3:
        shift=rng.integers(-2,3,(len(a),3))*pbc[None,:]; a.positions+=shift@a.cell.array
    elif r<0.5:
        a.positions+=rng.uniform(-6,6,3)
    if rng.random()<0.5: a=a[rng.permutation(len(a))]
    if rng.random()<0.3: a.rotate(rng.uniform(0,360),rng.normal(size=3),rotate_cell=True)
    return a,kind
def params(rng):
    p={}
    if rng.random()<0.5:
        if rng.random()<0.5: p['bond_threshold']=float(rng.choice([0.4,0.5,0.65,0.8,1.0]))
        if rng.random()<0.4: p['pos_tol']=float(rng.choice([0.2,0.5,0.7,1.0]))
        if rng.random()<0.4: p['max_cell_size']=float(rng.choice([4,6,8]))
        if rng.random()<0.3: p['merge_threshold']=float(rng.choice([0.1,0.5,0.9]))
        if rng.random()<0.4: p['radii']=str(rng.choice(["covalent","vdw","vdw_covalent"]))
    return p
def snap(a): return (a.positions.copy(),a.numbers.copy(),a.cell.array.copy(),a.pbc.copy())
def same(s,a): return all(np.array_equal(x,y) for x,y in zip(s,snap(a)))
def radii_of(p,num):
    r=p.get('radii','covalent')
    if r=='covalent': return covalent_radii[num]
    if r=='vdw': return vdw_radii[num]
    return np.array([vdw_radii[z] for z in num])  # as implemented (nan possible)
def check(a,p,cl):
    errs=[]
    n=len(a); num=a.numbers
    seen=set()
    R=radii_of(p,num); bt=p.get('bond_threshold',0.65)
    cellc=a.cell.array.copy()
    if (np.abs(cellc).sum(1)==0).any(): cellc=complete_cell(cellc)
    for c in cl:
        idx=list(c.indices)
        if len(idx)==0: errs.append('EMPTY')
        if len(set(idx))!=len(idx): errs.append('DUP')
        if any((i<0 or i>=n) for i in idx): errs.append('RANGE')
        if seen & set(idx): errs.append('OVERLAP')
        seen|=set(idx)
        if not set(int(z) for z in num[idx])<=set(int(z) for z in c.species): errs.append('SPECIES')
        cell=c.get_cell()
        if cell is None or int(np.sum(cell.get_pbc())) not in (2,3): errs.append('CELL_PBC')
        if len(idx)>1 and not np.isnan(R[idx]).any():
            _,D=get_distances(a.positions[idx],cell=cellc,pbc=a.pbc)
            M=D-R[idx][:,None]-R[idx][None,:]
            nc,_=cg.connected_components(M<=bt+1e-6)
            if nc!=1: errs.append('DISCONNECTED')
    return errs
def task(tid):
    rng=np.random.default_rng(5*10**6+tid)
    a,kind=gen(rng); p=params(rng); seed=int(rng.integers(10**6))
    rec=dict(tid=tid,kind=kind,n=len(a),pbc=a.pbc.tolist(),p=p,seed=seed)
    s=snap(a); t=time.time()
    try:
        cl=SBC().get_clusters(a,seed=seed,**p)
    except Exception as e:
        rec['out']='EXC:'+type(e).__name__+':'+str(e)[:80]; rec['tb']=traceback.format_exc().splitlines()[-3:]; return rec
    rec['t']=round(time.time()-t,2); rec['ncl']=len(cl); rec['sizes']=[len(c.indices) for c in cl]
    errs=check(a,p,cl)
    if not same(s,a): errs.append('INPUT_MUTATED')
    cl2=SBC().get_clusters(a.copy(),seed=seed,**p)
    if [list(c.indices) for c in cl]!=[list(c.indices) for c in cl2]: errs.append('NONDET')
    rec['out']='ok' if not errs else 'FAIL:'+','.join(sorted(set(errs)))
    return rec
if __name__=="__main__":
    from concurrent.futures import ProcessPoolExecutor
    import multiprocessing as mp
    lo,hi=int(sys.argv[1]),int(sys.argv[2])
    with ProcessPoolExecutor(14, mp_context=mp.get_context("fork")) as ex, open(f"/tmp/c01/out_{lo}_{hi}.jsonl","w") as f:
        for rec in ex.map(task, range(lo,hi), chunksize=8):
            f.write(json.dumps(rec)+"\n"); f.flush()
