import numpy as np, ase.build, collections, warnings
warnings.simplefilter("ignore")
from ase import Atoms
from matid.clustering import SBC
from matid.symmetry import SymmetryAnalyzer
rng=np.random.default_rng(8)
def occ(an): return sorted((s.wyckoff_letter,s.element,s.multiplicity) for s in an.get_wyckoff_sets_conventional(False))
def sig(c,tol):
    an=SymmetryAnalyzer(c,symmetry_tol=tol); return (an.get_material_id(),an.get_space_group_number(),occ(an))
units={}
g=ase.build.graphene(vacuum=6); g.pbc=[True,True,False]; units['graphene']=g
bn=ase.build.graphene(formula='BN',a=2.50,vacuum=6); bn.pbc=[True,True,False]; units['hBN']=bn
for f,k,a,th in (('MoS2','2H',3.18,3.19),('WSe2','2H',3.32,3.36),('TiS2','1T',3.41,2.85),('PtSe2','1T',3.73,2.6)):
    m=ase.build.mx2(formula=f,kind=k,a=a,thickness=th,vacuum=6); m.pbc=[True,True,False]; units[f+k]=m
res=collections.Counter()
for name,u in units.items():
    ref=sig(u,0.1)
    for trial in range(12):
        n=int(rng.integers(3,7)); a=u*(n,n,1)
        pz=bool(rng.integers(2)); a.pbc=[True,True,pz]
        a=a[rng.permutation(len(a))]
        if trial%2: a.rotate(rng.uniform(0,360), rng.normal(size=3), rotate_cell=True); a.positions+=rng.uniform(-5,5,3)
        cl=SBC().get_clusters(a,seed=int(rng.integers(10**6)))
        if len(cl)!=1 or len(cl[0].indices)!=len(a): res[(name,'sbc-fail')]+=1; print(name,n,pz,[(len(c.indices)) for c in cl]); continue
        c=cl[0].get_cell()
        try: s=sig(c,0.1)
        except Exception as e: s=('EXC',str(e)[:40])
        ok = s==ref and c.pbc.sum()==2
        res[(name,ok)]+=1
        if not ok: print(name,n,pz,c.pbc,len(c),s[1:],ref[1:])
for k,v in sorted(res.items(),key=str): print(k,v)
