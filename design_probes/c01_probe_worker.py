import sys, json
sys.path.insert(0,'/tmp/c01')
import probe
start,stop,stride,out=int(sys.argv[1]),int(sys.argv[2]),int(sys.argv[3]),sys.argv[4]
with open(out,'a') as f:
    for t in range(start,stop,stride):
        f.write(json.dumps({"tid":t,"out":"STARTED"})+"\n"); f.flush()
        r=probe.task(t)
        f.write(json.dumps(r)+"\n"); f.flush()
