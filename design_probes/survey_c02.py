import sys, json, time, numpy as np, warnings, collections, os
warnings.simplefilter("ignore")
sys.path.insert(0,'/tmp/survey')
from gen import *
from matid.clustering import SBC
def task(tid):
    rng=np.random.default_rng(tid)
    names=[e for e,_ in ELEMS]+list(COMPOUNDS)
    name=names[int(rng.integers(len(names)))]
    kind='bulk' if rng.random()<0.25 else 'slab'
    try: conv,st=conv_cell(name)
    except Exception as e: return dict(tid=tid,name=name,out='buildfail:'+type(e).__name__)
    miller=[(1,0,0),(1,1,0),(1,1,1),(0,0,1)][int(rng.integers(4))]
    if st in('hcp','wurtzite'): miller=(0,0,1)
    layers=int(rng.integers(3,5)); pbcz=bool(rng.integers(2)); noise=[0,0.02,0.05][int(rng.integers(3))]
    rec=dict(tid=tid,name=name,st=st,kind=kind,miller=miller,layers=layers,pbcz=pbcz,noise=noise)
    try:
        a,st=build(name,kind,miller,layers,pbcz,rng)
    except Exception as e:
        rec['out']='buildfail:'+type(e).__name__; return rec
    rec['n']=len(a)
    if len(a)>300: rec['out']='large'; return rec
    # primitive cell size precondition
    import spglib
    prim=spglib.find_primitive((conv.cell.array,conv.get_scaled_positions(),conv.numbers),symprec=1e-3)
    if prim is None or len(prim[2])>6 or np.linalg.norm(prim[0],axis=1).max()>=6*0.95: rec['out']='prim'; return rec
    pc=precond(a)
    if pc: rec['out']='pre-'+pc; return rec
    b=transform(a,noise,rng); seed=int(rng.integers(10**6)); rec['seed']=seed
    t=time.time()
    try:
        cl=SBC().get_clusters(b,seed=seed)
        dim=3 if kind=='bulk' else 2
        ok=len(cl)==1 and len(cl[0].indices)==len(b) and cl[0].get_dimensionality()==dim
        rec['out']='ok' if ok else 'FAIL'; rec['cl']=[(len(c.indices),c.get_dimensionality()) for c in cl]
    except Exception as e:
        rec['out']='EXC:'+type(e).__name__+str(e)[:50]
    rec['t']=round(time.time()-t,2)
    return rec
if __name__=="__main__":
    from concurrent.futures import ProcessPoolExecutor
    import multiprocessing as mp
    lo,hi=int(sys.argv[1]),int(sys.argv[2])
    with ProcessPoolExecutor(14, mp_context=mp.get_context("fork")) as ex, open(f"/tmp/survey/out_{lo}_{hi}.jsonl","w") as f:
        for rec in ex.map(task, range(lo,hi), chunksize=4):
            f.write(json.dumps(rec)+"\n"); f.flush()
