#!/bin/bash
# usage: drive.sh lo hi
lo=$1; hi=$2; N=14
rm -f /tmp/c01/j_*.jsonl
for w in $(seq 0 $((N-1))); do
 (
  s=$((lo+w))
  while [ $s -lt $hi ]; do
    OMP_NUM_THREADS=1 OPENBLAS_NUM_THREADS=1 /venv/bin/python /tmp/c01/worker.py $s $hi $N /tmp/c01/j_$w.jsonl 2>/dev/null
    rc=$?
    if [ $rc -eq 0 ]; then break; fi
    last=$(grep STARTED /tmp/c01/j_$w.jsonl | tail -1 | python3 -c "import sys,json; print(json.loads(sys.stdin.read())['tid'])")
    echo "{\"tid\": $last, \"out\": \"DIED rc=$rc\"}" >> /tmp/c01/j_$w.jsonl
    s=$((last+N))
  done
 ) &
done
wait
