import numpy as np, collections, warnings, pickle, sys
warnings.simplefilter("ignore")
from matid.clustering import SBC
from matid.core.periodicfinder import PeriodicFinder
import matid.geometry
fails=pickle.load(open("/tmp/fails.pkl","rb"))
b,seed,k=fails[0]
# replicate SBC preprocessing
import ase.geometry
sc=b.copy()
pbc=sc.get_pbc()
sp=sc.get_scaled_positions(); cell=sc.get_cell(); scale=False
for i in range(3):
    if not pbc[i]:
        mx,mn=sp[:,i].max(),sp[:,i].min()
        if mx>1 or mn<0: scale=True; cell[i,:]*=(mx-mn)+1
print("scale",scale, sc.cell.cellpar().round(2))
if scale: sc.set_cell(cell); sc.center()
sc.wrap()
radii=matid.geometry.get_radii("covalent", b.get_atomic_numbers())
d=matid.geometry.get_distances(sc,radii)
pf=PeriodicFinder(angle_tol=20)
z=sc.get_scaled_positions()[:,2]
order=np.argsort(z); layer=np.zeros(len(sc),int); 
zs=np.sort(z); 
res=collections.Counter()
for i in range(len(sc)):
    r,mask=pf.get_region(sc,seed_index=i,max_cell_size=6,pos_tol=0.7,bond_threshold=0.65,overlap_threshold=-0.6,distances=d,return_mask=True)
    n=None if r is None else len(r.get_basis_indices())
    res[n]+=1
    if n!=108: print(i, "z=%.3f"%z[i], n, mask.sum(), None if r is None else (r.cell.pbc.tolist(), len(r.cell), r.cell.cell.cellpar().round(2).tolist()))
print(res)
