import sys, time, numpy as np, ase.build, warnings
warnings.simplefilter("ignore")
from matid.clustering import SBC
from matid.classification import Classifier
a = ase.build.fcc100("Cu",(3,3,3),vacuum=6); a.pbc=True
t=time.time(); cl=SBC().get_clusters(a); t_plain=time.time()-t
class Crash(BaseException): pass
def run(k):
    cnt=[0]
    def tr(frame, ev, arg):
        if 'matid' not in frame.f_code.co_filename: return None
        def local(frame, ev, arg):
            if ev=='line':
                cnt[0]+=1
                if cnt[0]==k: raise Crash()
            return local
        return local
    sys.settrace(tr)
    try:
        try: r=SBC().get_clusters(a)
        finally: sys.settrace(None)
        return cnt[0], 'ok'
    except Crash: return cnt[0],'crash'
    except Exception as e: return cnt[0], 'exc '+type(e).__name__
t=time.time(); n,_=run(-1); t_tr=time.time()-t
print("plain",t_plain,"traced",t_tr,"lines",n)
snap=(a.positions.copy(), a.cell.array.copy())
import random
out={}
for k in random.Random(0).sample(range(1,n),30):
    r=run(k); out[r[1]]=out.get(r[1],0)+1
    assert (a.positions==snap[0]).all()
print(out)
