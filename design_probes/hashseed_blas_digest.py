import sys, hashlib, json, numpy as np, ase.build, warnings
warnings.simplefilter("ignore")
from matid.clustering import SBC
from matid.classification import Classifier
from ase.build import fcc100, bcc100, stack
rng=np.random.default_rng(5)
h=hashlib.sha256()
def dig(cl):
    return [(list(map(int,c.indices)), sorted(map(int,c.species)), c.get_cell().cell.array.tobytes().hex()[:16], c.get_dimensionality()) for c in cl]
for t in range(12):
    s1=fcc100("Cu",(3,3,3),a=3.61); s2=fcc100("Ni",(3,3,4),a=3.61)
    st=stack(s1,s2,distance=1.8); st.center(vacuum=5,axis=2); st.pbc=[True,True,bool(t%2)]
    st.rattle(0.03, seed=t)
    del st[[int(i) for i in rng.choice(len(st), 4, replace=False)]]
    st=st[rng.permutation(len(st))]
    d=dig(SBC().get_clusters(st, seed=t))
    h.update(json.dumps(d).encode())
    c=Classifier().classify(st); h.update(type(c).__name__.encode())
print(h.hexdigest())
