#!/venv/bin/python
"""Launcher (not `python -m`, which would load a module twice).

  matsim_main.py <C01|C02|C03|C04|C13|C17> [--tier quick|thorough] [--worlds N]
                 [--workers W] [--wall S] [--world-list a,b,c] [--no-known]
  matsim_main.py replay --replay FILE [--raw]
  matsim_main.py <prop> --replay FILE
  matsim_main.py selftest [--seeds N]
  matsim_main.py --helper         (internal: cross-interpreter reference server)

MATSIM_REPO=<dir> imports matid from another tree (used only by the
sensitivity tooling on scratch copies; registered checks never set it and
import /repo).
"""

import os
import sys

for _v in ("OMP_NUM_THREADS", "OPENBLAS_NUM_THREADS", "MKL_NUM_THREADS", "NUMEXPR_NUM_THREADS"):
    os.environ.setdefault(_v, "1")

HERE = os.path.dirname(os.path.abspath(__file__))
REPO = os.environ.get("MATSIM_REPO", "/repo")
sys.path.insert(0, REPO)
sys.path.insert(0, HERE)


def _check_imports():
    import matid
    import matid.ext  # noqa: F401

    got = os.path.dirname(os.path.dirname(os.path.abspath(matid.__file__)))
    if os.path.realpath(got) != os.path.realpath(REPO):
        print("HARNESS-ERROR matid imported from %s, expected %s" % (got, REPO))
        sys.exit(2)


def main(argv):
    import argparse

    if "--helper" in argv:
        _check_imports()
        from matsim.helper import _serve

        _serve()
        return 0
    ap = argparse.ArgumentParser()
    ap.add_argument("prop")
    ap.add_argument("--tier", default=os.environ.get("VERIF_TIER", "quick"))
    ap.add_argument("--replay")
    ap.add_argument("--raw", action="store_true")
    ap.add_argument("--worlds", type=int)
    ap.add_argument("--workers", type=int)
    ap.add_argument("--wall", type=float)
    ap.add_argument("--world-list")
    ap.add_argument("--no-known", action="store_true")
    ap.add_argument("--no-evidence", action="store_true")
    ap.add_argument("--digests-out")
    ap.add_argument("--survey")
    ap.add_argument("--replay-dir")
    ap.add_argument("--seeds", type=int, default=6)
    ap.add_argument("--quiet", action="store_true")
    a = ap.parse_args(argv)
    if a.tier not in ("quick", "thorough"):
        a.tier = "quick"
    try:
        root = int(os.environ.get("VERIF_SEED", "0"))
    except ValueError:
        root = 0
    _check_imports()
    import warnings

    warnings.simplefilter("ignore")
    warnings.showwarning = lambda *x, **k: None

    if a.replay:
        return replay(a.replay, a.raw, a.prop)
    if a.prop == "selftest":
        from matsim.selftest import main as st

        return st(a.seeds)
    from matsim import driver
    from matsim.driver import run_check

    if a.replay_dir:
        driver.REPLAY_DIR = a.replay_dir

    wl = [int(x) for x in a.world_list.split(",")] if a.world_list else None
    return run_check(
        a.prop,
        a.tier,
        root,
        workers=a.workers,
        worlds=a.worlds,
        wall=a.wall,
        world_list=wl,
        quiet=a.quiet,
        use_known=not a.no_known,
        evidence=not a.no_evidence,
        digests_out=a.digests_out,
        survey=a.survey,
    )


def replay(path, raw, prop):
    import json

    from matsim.ops import run_world

    with open(path) as f:
        data = json.load(f)
    spec = data["spec"]
    summ = run_world(spec)
    v = summ["violation"]
    if raw:
        print("RAW " + json.dumps({"violation": v, "digest": summ["digest"]}, default=str))
        return 1 if v else 0
    want = data.get("violation")
    if v is None:
        print("replay %s: no violation (expected %s)" % (path, want.get("cls") if want else None))
        return 0
    print("VIOLATION property=%s replay=%s" % (v["property"], os.path.abspath(path)))
    print("  class=%s op=%s: %s" % (v["cls"], v.get("op_index"), v.get("detail")))
    if want:
        same = want.get("cls") == v["cls"] and want.get("op_index") == v.get("op_index")
        print("  reproduces recorded violation exactly: %s" % same)
    return 1


if __name__ == "__main__":
    sys.exit(main(sys.argv[1:]))
